#!/bin/sh
# validates MANIFEST.json and every evidence file against the schemas in /root/.vp (development aid)
python3-vt - <<'PY'
import json, glob, jsonschema
jsonschema.validate(json.load(open('/verif/MANIFEST.json')), json.load(open('/root/.vp/MANIFEST.schema.json')))
es = json.load(open('/root/.vp/EVIDENCE.schema.json'))
for f in sorted(glob.glob('/verif/evidence/*.json')):
    jsonschema.validate(json.load(open(f)), es)
ps = json.load(open('/root/.vp/PROPERTIES.schema.json'))
ids = []
for l in open('/verif/properties.jsonl'):
    p = json.loads(l); jsonschema.validate(p, ps); ids.append(p['id'])
m = json.load(open('/verif/MANIFEST.json'))
claimed = [c['property_id'] for c in m['checks']]; na = [x['property_id'] for x in m.get('not_applicable', [])]
assert sorted(claimed + na) == sorted(ids), (claimed, na)
print('manifest, %d evidence files and %d properties valid; claimed=%d not_applicable=%d' % (len(glob.glob('/verif/evidence/*.json')), len(ids), len(claimed), len(na)))
PY
