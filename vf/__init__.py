"""Runtime-monitoring framework for wannesm/dtaidistance (see /verif/DESIGN.md)."""
