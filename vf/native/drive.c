// C08 native driver: calls every exported routine of dd_dtw.h / dd_ed.h with separately
// malloc'ed, exactly sized buffers over an exhaustive small grid of shapes and settings.
// Built with -fsanitize=address,undefined (and plain for valgrind). Prints per-routine call
// counts and an order-independent checksum of all results (to diff builds).
// usage: drive <maxlen> <shard> <nshards> <seed>
#include "dd_dtw.h"
#include <string.h>
#ifdef VF_OMP
#include "dd_dtw_openmp.h"
#include <omp.h>
#endif

static unsigned long long rs;
static unsigned rnd(void) { rs = rs * 6364136223846793005ULL + 1442695040888963407ULL; return (unsigned)(rs >> 33); }
static unsigned long calls[40];
static const char *names[40] = {"dtw_distance", "dtw_distance_ndim", "dtw_warping_paths", "dtw_warping_paths_ndim",
    "dtw_expand_wps", "dtw_expand_wps_slice", "dtw_best_path", "dtw_best_path_customstart", "dtw_best_path_isclose",
    "dtw_best_path_prob", "dtw_warping_path", "dtw_warping_path_ndim", "dtw_warping_path_prob_ndim",
    "dtw_warping_paths_affinity(_ndim)", "dtw_expand_wps_affinity", "dtw_expand_wps_slice_affinity", "dtw_best_path_affinity",
    "dtw_wps_max", "dtw_wps_negativize/positivize", "dtw_wps_loc(_columns)", "ub_euclidean*", "lb_keogh*",
    "euclidean_distance*", "dtw_distances_ptrs", "dtw_distances_ndim_ptrs", "dtw_distances_matrix", "dtw_distances_ndim_matrix",
    "dtw_distances_matrices", "dtw_distances_ndim_matrices", "dtw_dba_ptrs", "dtw_dba_matrix", "dtw_distances_length",
    "dtw_wps_negativize_value", "dtw_distances_*_parallel", 0};
static double checksum = 0;
static unsigned long ncfg = 0;
static void acc(double v) { if (v == v && v < 1e300 && v > -1e300) checksum += v; else checksum += 0.5; }

static seq_t *mkseries(idx_t l, int ndim) {
    seq_t *s = malloc(sizeof(seq_t) * l * ndim);
    for (idx_t i = 0; i < l * ndim; i++) s[i] = ((int)(rnd() % 33) - 16) / 4.0;
    return s;
}

static void one(idx_t l1, idx_t l2, int ndim, DTWSettings *st) {
    seq_t *s1 = mkseries(l1, ndim), *s2 = mkseries(l2, ndim);
    ncfg++;
    // distances
    if (ndim == 1) { acc(dtw_distance(s1, l1, s2, l2, st)); calls[0]++; }
    acc(dtw_distance_ndim(s1, l1, s2, l2, ndim, st)); calls[1]++;
    // bounds
    if (ndim == 1) {
        acc(ub_euclidean(s1, l1, s2, l2)); acc(ub_euclidean_euclidean(s1, l1, s2, l2));
        acc(lb_keogh(s1, l1, s2, l2, st)); acc(lb_keogh_euclidean(s1, l1, s2, l2, st)); calls[21] += 2;
        acc(euclidean_distance(s1, l1, s2, l2)); acc(euclidean_distance_euclidean(s1, l1, s2, l2)); calls[22] += 2;
    }
    acc(ub_euclidean_ndim(s1, l1, s2, l2, ndim)); acc(ub_euclidean_ndim_euclidean(s1, l1, s2, l2, ndim)); calls[20] += 4;
    acc(euclidean_distance_ndim(s1, l1, s2, l2, ndim)); acc(euclidean_distance_ndim_euclidean(s1, l1, s2, l2, ndim)); calls[22] += 2;
    // compact warping paths in a buffer of exactly the advertised size
    idx_t wl = dtw_settings_wps_length(l1, l2, st);
    if (wl != (l1 + 1) * dtw_settings_wps_width(l1, l2, st)) abort();
    if (ndim == 1) { seq_t *we = malloc(sizeof(seq_t) * wl); acc(dtw_warping_paths_euclidean(we, s1, l1, s2, l2, true, true, false, st)); free(we); calls[2]++; }
    for (int neg = 0; neg < 2; neg++) {
        seq_t *wps = malloc(sizeof(seq_t) * wl);
        if (ndim == 1) { acc(dtw_warping_paths(wps, s1, l1, s2, l2, true, neg, neg, st)); calls[2]++; }
        acc(dtw_warping_paths_ndim(wps, s1, l1, s2, l2, true, !neg, neg, ndim, st)); calls[3]++;
        seq_t *full = malloc(sizeof(seq_t) * (l1 + 1) * (l2 + 1));
        dtw_expand_wps(wps, full, l1, l2, st); calls[4]++;
        acc(full[(l1 + 1) * (l2 + 1) - 1]);
        free(full);
        // every slice of small matrices, a few of larger ones
        int nsl = 0;
        for (idx_t rb = 0; rb <= l1; rb++) for (idx_t re = rb + 1; re <= l1 + 1; re++)
            for (idx_t cb = 0; cb <= l2; cb++) for (idx_t ce = cb + 1; ce <= l2 + 1; ce++) {
                if (l1 * l2 > 12 && rnd() % 16 != 0) continue;
                seq_t *sl = malloc(sizeof(seq_t) * (re - rb) * (ce - cb));
                dtw_expand_wps_slice(wps, sl, l1, l2, rb, re, cb, ce, st); calls[5]++; nsl++;
                acc(sl[0]);
                free(sl);
            }
        DTWWps p = dtw_wps_parts(l1, l2, st);
        for (idx_t r = 1; r <= l1; r++) { idx_t cb, ce; dtw_wps_loc_columns(&p, r, &cb, &ce, l1, l2); calls[19]++;
            for (idx_t c = cb; c < ce && c <= l2; c++) { idx_t loc = dtw_wps_loc(&p, r, c, l1, l2); if (loc >= wl) abort(); } }
        // best paths into index arrays of exactly l1+l2 entries
        idx_t *i1 = malloc(sizeof(idx_t) * (l1 + l2)), *i2 = malloc(sizeof(idx_t) * (l1 + l2));
        acc((double)dtw_best_path(wps, i1, i2, l1, l2, st)); calls[6]++;
        acc((double)dtw_best_path_isclose(wps, i1, i2, l1, l2, 1e-5, 1e-8, st)); calls[8]++;
        idx_t rs_ = 1 + rnd() % l1, cs_ = 1 + rnd() % l2;
        { idx_t cb, ce; dtw_wps_loc_columns(&p, rs_, &cb, &ce, l1, l2); if (cs_ < cb) cs_ = cb; if (cs_ >= ce) cs_ = ce - 1; if (cs_ < 1) cs_ = 1; }
        if (cs_ <= l2) { acc((double)dtw_best_path_customstart(wps, i1, i2, l1, l2, rs_, cs_, st)); calls[7]++; }
        dtw_srand(7);
        acc((double)dtw_best_path_prob(wps, i1, i2, l1, l2, 0.5, st)); calls[9]++;
        free(i1); free(i2); free(wps);
    }
    {   idx_t *i1 = malloc(sizeof(idx_t) * (l1 + l2)), *i2 = malloc(sizeof(idx_t) * (l1 + l2)); idx_t pl;
        if (ndim == 1) { acc(dtw_warping_path(s1, l1, s2, l2, i1, i2, &pl, st)); calls[10]++; }
        acc(dtw_warping_path_ndim(s1, l1, s2, l2, i1, i2, &pl, ndim, st)); calls[11]++;
        dtw_srand(3);
        acc(dtw_warping_path_prob_ndim(s1, l1, s2, l2, i1, i2, &pl, 0.5, ndim, st)); calls[12]++;
        free(i1); free(i2); }
    // affinity
    for (int triu = 0; triu < 2; triu++) {
        seq_t *wps = malloc(sizeof(seq_t) * wl);
        acc(dtw_warping_paths_affinity_ndim(wps, s1, l1, s2, l2, true, true, triu, triu, ndim, 1.0, 0.36, -0.1, 0.5, st)); calls[13]++;
        if (ndim == 1) { acc(dtw_warping_paths_affinity(wps, s1, l1, s2, l2, true, true, false, triu, 0.5, 0.2, -0.05, 0.9, st)); calls[13]++; }
        seq_t *full = malloc(sizeof(seq_t) * (l1 + 1) * (l2 + 1));
        dtw_expand_wps_affinity(wps, full, l1, l2, st); calls[14]++; acc(full[(l1 + 1) * (l2 + 1) - 1]); free(full);
        for (idx_t rb = 0; rb <= l1; rb++) for (idx_t re = rb + 1; re <= l1 + 1; re++)
            for (idx_t cb = 0; cb <= l2; cb++) for (idx_t ce = cb + 1; ce <= l2 + 1; ce++) {
                if (triu || (l1 * l2 > 12 && rnd() % 24 != 0)) continue;
                seq_t *sl = malloc(sizeof(seq_t) * (re - rb) * (ce - cb));
                dtw_expand_wps_slice_affinity(wps, sl, l1, l2, rb, re, cb, ce, st); calls[15]++; acc(sl[0]); free(sl);
            }
        DTWWps p = dtw_wps_parts(l1, l2, st);
        idx_t mr, mc; idx_t mi = dtw_wps_max(&p, wps, &mr, &mc, l1, l2); calls[17]++;
        if (mi >= wl) abort();
        if (mr > 0 && mc > 0) {
            idx_t *i1 = malloc(sizeof(idx_t) * (l1 + l2)), *i2 = malloc(sizeof(idx_t) * (l1 + l2));
            acc((double)dtw_best_path_affinity(wps, i1, i2, l1, l2, mr, mc, st)); calls[16]++;
            free(i1); free(i2);
            dtw_wps_negativize_value(&p, wps, l1, l2, mr, mc); dtw_wps_positivize_value(&p, wps, l1, l2, mr, mc); calls[32] += 2;
        }
        idx_t rb = 1 + rnd() % l1, cb = 1 + rnd() % l2; idx_t re = rb + 1 + rnd() % (l1 + 1 - rb), ce = cb + 1 + rnd() % (l2 + 1 - cb);
        for (int isect = 0; isect < 2; isect++) { dtw_wps_negativize(&p, wps, l1, l2, rb, re, cb, ce, isect); dtw_wps_positivize(&p, wps, l1, l2, rb, re, cb, ce, isect); calls[18] += 2; }
        free(wps);
    }
    free(s1); free(s2);
}

#define SENTINEL (-1.2345678912345e-250)
static long unwritten = 0, pardiff = 0;
static void matrices(int n, int ndim, int maxlen, DTWSettings *st) {
    // all blocks for n series, ptrs and matrix layouts, outputs of exactly dtw_distances_length
    idx_t *lengths = malloc(sizeof(idx_t) * n); seq_t **ptrs = malloc(sizeof(seq_t *) * n);
    idx_t L0 = 1 + rnd() % maxlen;
    for (int i = 0; i < n; i++) { lengths[i] = 1 + rnd() % maxlen; ptrs[i] = mkseries(lengths[i], ndim); }
    seq_t *matrix = mkseries((idx_t)n * L0, ndim);
    for (int rb = 0; rb <= n; rb++) for (int re = rb; re <= n; re++) for (int cb = 0; cb <= n; cb++) for (int ce = cb; ce <= n; ce++)
        for (int triu = 0; triu < 2; triu++) {
            if ((rb < re) != (cb < ce)) continue;                 // both empty (= no block) or both non-empty
            if (rb == re && !(rb == 0 && cb == 0)) continue;
            if (n > 3 && rnd() % (n > 9 ? (unsigned)(n * n * n) : 4u) != 0) continue;   // large n: a few dozen sampled blocks
            DTWBlock b = dtw_block_empty(); b.rb = rb; b.re = (rb == re) ? 0 : re; b.cb = cb; b.ce = (cb == ce) ? 0 : ce; b.triu = triu;
            DTWBlock b2 = b; idx_t len = dtw_distances_length(&b2, n, n); calls[31]++;
#ifdef VF_OMP
            seq_t *serial_out[6] = {0, 0, 0, 0, 0, 0};
            for (int route = 0; route < 12; route++) {
                if (route == 6) omp_set_num_threads(1 + rnd() % 4);
#else
            for (int route = 0; route < 6; route++) {
#endif
                seq_t *out = malloc(sizeof(seq_t) * (len ? len : 0) + (len ? 0 : 1)); b2 = b; idx_t got = 0;
                for (idx_t q = 0; q < len; q++) out[q] = SENTINEL;
                switch (route) {
                    case 0: got = dtw_distances_ptrs(ptrs, n, lengths, out, &b2, st); calls[23]++; break;
                    case 1: got = dtw_distances_ndim_ptrs(ptrs, n, lengths, ndim, out, &b2, st); calls[24]++; break;
                    case 2: if (ndim == 1) { got = dtw_distances_matrix(matrix, n, L0, out, &b2, st); calls[25]++; } else got = len; break;
                    case 3: got = dtw_distances_ndim_matrix(matrix, n, L0, ndim, out, &b2, st); calls[26]++; break;
                    case 4: if (ndim == 1) { got = dtw_distances_matrices(matrix, n, L0, matrix, n, L0, out, &b2, st); calls[27]++; } else got = len; break;
                    case 5: got = dtw_distances_ndim_matrices(matrix, n, L0, matrix, n, L0, ndim, out, &b2, st); calls[28]++; break;
#ifdef VF_OMP
                    // the OpenMP twins (dd_dtw_openmp.c): same exact-size output buffers
                    case 6: got = dtw_distances_ptrs_parallel(ptrs, n, lengths, out, &b2, st); calls[33]++; break;
                    case 7: got = dtw_distances_ndim_ptrs_parallel(ptrs, n, lengths, ndim, out, &b2, st); calls[33]++; break;
                    case 8: if (ndim == 1) { got = dtw_distances_matrix_parallel(matrix, n, L0, out, &b2, st); calls[33]++; } else got = len; break;
                    case 9: got = dtw_distances_ndim_matrix_parallel(matrix, n, L0, ndim, out, &b2, st); calls[33]++; break;
                    case 10: if (ndim == 1) { got = dtw_distances_matrices_parallel(matrix, n, L0, matrix, n, L0, out, &b2, st); calls[33]++; } else got = len; break;
                    case 11: got = dtw_distances_ndim_matrices_parallel(matrix, n, L0, matrix, n, L0, ndim, out, &b2, st); calls[33]++; break;
#endif
                }
                if (got != len) { printf("LENGTH-MISMATCH route=%d n=%d block=%d,%d,%d,%d triu=%d got=%zd len=%zd\n", route, n, rb, re, cb, ce, triu, got, len); }
                // every advertised entry must have been written (the Python wrapper hands over uninitialised memory)
                int skipped = (ndim != 1) && (route == 2 || route == 4 || route == 8 || route == 10);
                if (!skipped)
                    for (idx_t q = 0; q < len; q++) if (out[q] == SENTINEL) {
                        printf("UNWRITTEN route=%d n=%d ndim=%d block=%d,%d,%d,%d triu=%d idx=%zd len=%zd\n", route, n, ndim, rb, re, cb, ce, triu, q, len); unwritten++; break; }
                if (len && !skipped && route < 6) acc(out[len - 1]);
#ifdef VF_OMP
                if (route < 6) { serial_out[route] = out; continue; }
                if (!skipped && serial_out[route - 6] && got == len)
                    for (idx_t q = 0; q < len; q++) {
                        seq_t x = serial_out[route - 6][q], y = out[q];
                        if (!(x == y || (x != x && y != y))) { printf("PARALLEL-DIFFERS route=%d n=%d ndim=%d block=%d,%d,%d,%d triu=%d idx=%zd serial=%g parallel=%g\n", route, n, ndim, rb, re, cb, ce, triu, q, x, y); pardiff++; break; }
                    }
                free(out);
                if (route == 11) for (int q = 0; q < 6; q++) { free(serial_out[q]); serial_out[q] = 0; }
#else
                free(out);
#endif
            }
        }
    // DBA with unequal lengths, masks across the byte boundary when n > 8
    for (int rep = 0; rep < 3; rep++) {
        idx_t t = 1 + rnd() % maxlen;
        seq_t *c = mkseries(t, ndim);
        int nbytes = (n + 7) / 8; ba_t *mask = malloc(nbytes); int any = 0;
        for (int i = 0; i < nbytes; i++) mask[i] = 0;
        for (int i = 0; i < n; i++) if (rnd() % 3) { mask[i / 8] |= (1 << (i % 8)); any = 1; }
        if (!any) mask[0] |= 1;
        dtw_dba_ptrs(ptrs, n, lengths, c, t, mask, 0, ndim, st); calls[29]++; acc(c[0]);
        dtw_srand(5);
        dtw_dba_ptrs(ptrs, n, lengths, c, t, mask, 2, ndim, st); calls[29]++; acc(c[t * ndim - 1]);
        dtw_dba_matrix(matrix, n, L0, c, t, mask, 0, ndim, st); calls[30]++; acc(c[0]);
        dtw_srand(9);
        dtw_dba_matrix(matrix, n, L0, c, t, mask, 2, ndim, st); calls[30]++; acc(c[t * ndim - 1]);
        free(mask); free(c);
    }
    for (int i = 0; i < n; i++) free(ptrs[i]);
    free(ptrs); free(lengths); free(matrix);
}

#ifdef VF_FUZZ
// libFuzzer entry: the input bytes choose shape, every setting independently (not only the fixed option
// bundles of the grid below) and the series values; coverage feedback steers towards unvisited kernel branches.
static const unsigned char *fz; static size_t fzn, fzi;
static unsigned fb(void) { return fzi < fzn ? fz[fzi++] : 0; }
int LLVMFuzzerTestOneInput(const unsigned char *data, size_t size) {
    if (size < 8) return 0;
    fz = data; fzn = size; fzi = 0;
    idx_t l1 = 1 + fb() % 14, l2 = 1 + fb() % 14;
    int ndim = 1 + fb() % 3;
    DTWSettings st = dtw_settings_default();
    st.window = fb() % 17;
    unsigned f = fb();
    if (f & 1) { st.psi_1b = fb() % (l1 + 1); st.psi_1e = fb() % (l1 + 1); st.psi_2b = fb() % (l2 + 1); st.psi_2e = fb() % (l2 + 1); }
    if ((st.psi_1b >= l1 && st.psi_2e >= l2) || (st.psi_2b >= l2 && st.psi_1e >= l1)) { st.psi_1b = 0; st.psi_2b = 0; }
    if (f & 2) st.penalty = (fb() % 16) / 4.0;
    if (f & 4) st.max_step = (1 + fb() % 32) / 4.0;
    if (f & 8) st.max_dist = (1 + fb() % 64) / 4.0;
    if (f & 16) st.use_pruning = true;
    if (f & 32) st.max_length_diff = fb() % 8;
    st.inner_dist = (f >> 6) & 1;
    unsigned long long h = 1469598103934665603ULL;
    for (size_t i = fzi; i < size; i++) h = (h ^ data[i]) * 1099511628211ULL;
    rs = h;
    if (f & 128) {
        int n = 1 + fb() % 6;
        st.max_length_diff = 0;
        st.psi_1b = st.psi_1e = st.psi_2b = st.psi_2e = 0;     // series lengths are drawn inside matrices(): keep psi <= length
        matrices(n, ndim, 5, &st);
    } else {
        if (st.max_length_diff != 0 && (l1 > l2 ? l1 - l2 : l2 - l1) > st.max_length_diff) st.max_length_diff = 0;
        one(l1, l2, ndim, &st);
    }
    return 0;
}
#else
// DBA scale-up slice: a narrow band, series of clearly different lengths (4..20) and plateau-rich values, so that optimal
// paths inside the band have many non-diagonal steps (path index arrays, scratch matrix sized for the widest series)
static void dba_long(int ndim, DTWSettings *st) {
    int n = 2 + rnd() % 3;
    idx_t *lengths = malloc(sizeof(idx_t) * n); seq_t **ptrs = malloc(sizeof(seq_t *) * n);
    for (int i = 0; i < n; i++) {
        lengths[i] = (rnd() % 2) ? 4 + rnd() % 5 : 10 + rnd() % 11;
        ptrs[i] = malloc(sizeof(seq_t) * lengths[i] * ndim);
        seq_t v = 0;
        for (idx_t j = 0; j < lengths[i]; j++) {
            if (rnd() % 3 == 0) v = ((int)(rnd() % 9) - 4) / 2.0;          // plateaus
            for (int d = 0; d < ndim; d++) ptrs[i][j * ndim + d] = v + d;
        }
    }
    idx_t t = 6 + rnd() % 12;
    seq_t *c = malloc(sizeof(seq_t) * t * ndim);
    { seq_t v = 0; for (idx_t j = 0; j < t; j++) { if (rnd() % 3 == 0) v = ((int)(rnd() % 9) - 4) / 2.0; for (int d = 0; d < ndim; d++) c[j * ndim + d] = v + d; } }
    ba_t mask[1] = {0};
    for (int i = 0; i < n; i++) mask[0] |= (1 << i);
    dtw_dba_ptrs(ptrs, n, lengths, c, t, mask, 0, ndim, st); calls[29]++; acc(c[0]);
    dtw_dba_ptrs(ptrs, n, lengths, c, t, mask, 0, ndim, st); calls[29]++; acc(c[t * ndim - 1]);
    for (int i = 0; i < n; i++) free(ptrs[i]);
    free(ptrs); free(lengths); free(c);
}

int main(int argc, char **argv) {
    int maxlen = atoi(argv[1]), shard = atoi(argv[2]), nshards = atoi(argv[3]); unsigned seed = atoi(argv[4]);
    rs = seed * 2654435761ULL + 99;
    unsigned long idx = 0;
    for (idx_t l1 = 1; l1 <= maxlen; l1++) for (idx_t l2 = 1; l2 <= maxlen; l2++)
        for (idx_t w = 0; w <= (l1 > l2 ? l1 : l2) + 1; w++)
            for (int pk = 0; pk < 7; pk++) for (int opt = 0; opt < 6; opt++) {
                idx++;
                if (idx % nshards != (unsigned long)shard) continue;
                DTWSettings st = dtw_settings_default();
                st.window = w;
                idx_t mn = l1 < l2 ? l1 : l2;
                switch (pk) {
                    case 0: break;
                    case 1: dtw_settings_set_psi(1 < mn ? 1 : mn - 1 > 0 ? mn - 1 : 0, &st); break;
                    case 2: dtw_settings_set_psi(mn - 1, &st); break;
                    case 3: st.psi_1b = l1 - 1; st.psi_2e = l2 - 1; break;
                    case 4: st.psi_2b = l2 - 1; st.psi_1e = l1 - 1; break;
                    case 5: st.psi_1b = rnd() % (l1 + 1); st.psi_1e = rnd() % (l1 + 1); st.psi_2b = rnd() % (l2 + 1); st.psi_2e = rnd() % (l2 + 1); break;
                    case 6: st.psi_1b = l1; st.psi_1e = l1 / 2; st.psi_2b = l2 / 2; st.psi_2e = l2 - 1; break;
                }
                if ((st.psi_1b >= l1 && st.psi_2e >= l2) || (st.psi_2b >= l2 && st.psi_1e >= l1)) { st.psi_1b = 0; st.psi_2b = 0; }
                switch (opt) {
                    case 0: break;
                    case 1: st.penalty = 0.5; break;
                    case 2: st.max_step = 1.5; break;
                    case 3: st.max_dist = 2.0; break;
                    case 4: st.use_pruning = true; break;
                    case 5: st.penalty = 1.0; st.max_step = 3.0; st.max_dist = 4.0; st.use_pruning = (rnd() % 2); break;
                }
                st.inner_dist = (idx / 7) % 2;
                int ndim = 1 + (idx % 3);
                one(l1, l2, ndim, &st);
            }
    idx = 0;
    for (int n = 1; n <= 5; n++) for (int ndim = 1; ndim <= 3; ndim++) for (int w = 0; w <= 2; w++) for (int inner = 0; inner < 2; inner++) {
        idx++;
        if (idx % nshards != (unsigned long)shard) continue;
        DTWSettings st = dtw_settings_default(); st.window = w; st.inner_dist = inner;
        if (idx % 5 == 0) st.penalty = 0.5;
        if (idx % 7 == 0) st.use_pruning = true;
        matrices(n, ndim, maxlen < 5 ? maxlen : 5, &st);
        if (n == 5) { matrices(9, ndim, 4, &st); }
        // collections beyond 16 / 32 / 64 series: DBA masks of several bytes, index arithmetic of the matrix routines
        if (n == 5 && w == 1) { matrices(17, ndim, 3, &st); matrices(33, ndim, 3, &st); }
        if (n == 5 && w == 2 && inner == 0) { matrices(65, ndim, 2, &st); }
    }
    for (int rep = 0; rep < 1500; rep++) {
        DTWSettings st = dtw_settings_default(); st.window = 1 + rep % 3; st.inner_dist = (rep / 3) % 2;
        if (rep % 5 == 0) st.penalty = 0.5;
        dba_long(1 + rep % 2, &st);
    }
    printf("CONFIGS %lu CHECKSUM %.6f\n", ncfg, checksum);
    for (int i = 0; names[i] || i < 33; i++) { if (!names[i]) break; printf("CALLS %s %lu\n", names[i], calls[i]); }
    return 0;
}
#endif
