// Native OpenMP harness for C07: runs the six parallel distance-matrix routines of the
// repository against their serial counterparts under many thread counts / schedules /
// injected delays and records a call history of the kernel calls made inside the regions.
// Input (stdin), one configuration per line:
//   id routine n ndim equal L rb re cb ce triu threads sched chunk delay dseed window psi penalty maxdist inner pruning vseed maxstep maxlengthdiff
// routine: 0 ptrs 1 ndim_ptrs 2 matrix 3 ndim_matrix 4 matrices 5 ndim_matrices
// rb=re=cb=ce=0 means "no block".  sched: 0 keep, 1 static, 2 dynamic, 3 guided (needs the
// schedule(runtime) build).  Output: one JSON object per configuration.
#include "dd_dtw_openmp.h"
#include <omp.h>
#include <pthread.h>
#include <sched.h>
#include <string.h>
#include <unistd.h>

typedef struct { int tid; const seq_t *a; const seq_t *b; } call_t;
static call_t *log_buf = NULL;
static size_t log_n = 0, log_cap = 0;
static pthread_mutex_t log_mu = PTHREAD_MUTEX_INITIALIZER;
static int in_parallel_phase = 0, delay_mode = 0;
static unsigned delay_seed = 0;
static int active = 0, max_active = 0;
extern unsigned long vf_regions;

static void record(const seq_t *a, const seq_t *b) {
    pthread_mutex_lock(&log_mu);
    if (log_n == log_cap) { log_cap = log_cap ? 2 * log_cap : 1024; log_buf = realloc(log_buf, log_cap * sizeof(call_t)); }
    log_buf[log_n].tid = omp_get_thread_num(); log_buf[log_n].a = a; log_buf[log_n].b = b; log_n++;
    active++; if (active > max_active) max_active = active;
    pthread_mutex_unlock(&log_mu);
}
static void leave(void) { pthread_mutex_lock(&log_mu); active--; pthread_mutex_unlock(&log_mu); }
static void maybe_delay(const seq_t *a, const seq_t *b) {
    if (!delay_mode) return;
    unsigned x = (unsigned)((uintptr_t)a * 2654435761u ^ (uintptr_t)b * 40503u) + omp_get_thread_num() * 7919u + delay_seed * 104729u;
    x ^= x >> 13; x *= 0x5bd1e995u; x ^= x >> 15;
    if (x % 4 == 0) usleep((x >> 7) % (delay_mode == 2 ? 400 : 60)); else if (x % 4 == 1) sched_yield();
}
seq_t __real_dtw_distance(seq_t *s1, idx_t l1, seq_t *s2, idx_t l2, DTWSettings *settings);
seq_t __wrap_dtw_distance(seq_t *s1, idx_t l1, seq_t *s2, idx_t l2, DTWSettings *settings) {
    if (in_parallel_phase) { record(s1, s2); maybe_delay(s1, s2); }
    seq_t v = __real_dtw_distance(s1, l1, s2, l2, settings);
    if (in_parallel_phase) { maybe_delay(s2, s1); leave(); }
    return v;
}
seq_t __real_dtw_distance_ndim(seq_t *s1, idx_t l1, seq_t *s2, idx_t l2, int ndim, DTWSettings *settings);
seq_t __wrap_dtw_distance_ndim(seq_t *s1, idx_t l1, seq_t *s2, idx_t l2, int ndim, DTWSettings *settings) {
    if (in_parallel_phase) { record(s1, s2); maybe_delay(s1, s2); }
    seq_t v = __real_dtw_distance_ndim(s1, l1, s2, l2, ndim, settings);
    if (in_parallel_phase) { maybe_delay(s2, s1); leave(); }
    return v;
}

static unsigned long long rs;
static unsigned rnd(void) { rs = rs * 6364136223846793005ULL + 1442695040888963407ULL; return (unsigned)(rs >> 33); }

int main(void) {
    char line[1024];
    while (fgets(line, sizeof line, stdin)) {
        long id; int routine, n, ndim, equal, L, rb, re, cb, ce, triu, threads, sched, chunk, delay, window, psi, inner, pruning;
        unsigned dseed, vseed; double penalty, maxdist, maxstep; int mld;
        if (sscanf(line, "%ld %d %d %d %d %d %d %d %d %d %d %d %d %d %d %u %d %d %lf %lf %d %d %u %lf %d", &id, &routine, &n, &ndim, &equal,
                   &L, &rb, &re, &cb, &ce, &triu, &threads, &sched, &chunk, &delay, &dseed, &window, &psi, &penalty, &maxdist,
                   &inner, &pruning, &vseed, &maxstep, &mld) != 25) continue;
        int is_matrix = routine >= 2;
        if (is_matrix) equal = 1;
        if (routine % 2 == 0) ndim = 1;
        rs = vseed * 2654435761ULL + 12345;
        idx_t *lengths = malloc(n * sizeof(idx_t));
        seq_t **ptrs = malloc(n * sizeof(seq_t *));
        int L0 = 1 + rnd() % L;
        seq_t *matrix = NULL;
        if (is_matrix) matrix = malloc((size_t)n * L0 * ndim * sizeof(seq_t));
        for (int i = 0; i < n; i++) {
            lengths[i] = equal ? L0 : 1 + rnd() % L;
            ptrs[i] = is_matrix ? matrix + (size_t)i * L0 * ndim : malloc(lengths[i] * ndim * sizeof(seq_t));
            for (idx_t j = 0; j < lengths[i] * ndim; j++) ptrs[i][j] = ((int)(rnd() % 64) - 32) / 8.0;
        }
        DTWSettings s = dtw_settings_default();
        s.window = window; s.penalty = penalty; s.max_dist = maxdist; s.inner_dist = inner; s.use_pruning = pruning;
        s.max_step = maxstep; s.max_length_diff = mld;
        if (psi > 0) { int mn = L0; if (!equal) { mn = 1 << 30; for (int i = 0; i < n; i++) if (lengths[i] < mn) mn = lengths[i]; }
                       dtw_settings_set_psi(psi < mn ? psi : mn - 1, &s); }
        DTWBlock b0 = dtw_block_empty(); b0.rb = rb; b0.re = re; b0.cb = cb; b0.ce = ce; b0.triu = triu;
        DTWBlock bl = b0;
        idx_t len = dtw_distances_length(&bl, n, n);
        seq_t *out_s = malloc((len ? len : 1) * sizeof(seq_t));
        seq_t *out_p = malloc((len ? len : 1) * sizeof(seq_t));
        unsigned long long pat = 0x7ff8dead00000000ULL;
        for (idx_t i = 0; i < len; i++) { memcpy(&out_s[i], &pat, 8); memcpy(&out_p[i], &pat, 8); }
        idx_t rl_s = 0, rl_p = 0;
        bl = b0;
        switch (routine) {
            case 0: rl_s = dtw_distances_ptrs(ptrs, n, lengths, out_s, &bl, &s); break;
            case 1: rl_s = dtw_distances_ndim_ptrs(ptrs, n, lengths, ndim, out_s, &bl, &s); break;
            case 2: rl_s = dtw_distances_matrix(matrix, n, L0, out_s, &bl, &s); break;
            case 3: rl_s = dtw_distances_ndim_matrix(matrix, n, L0, ndim, out_s, &bl, &s); break;
            case 4: rl_s = dtw_distances_matrices(matrix, n, L0, matrix, n, L0, out_s, &bl, &s); break;
            case 5: rl_s = dtw_distances_ndim_matrices(matrix, n, L0, matrix, n, L0, ndim, out_s, &bl, &s); break;
        }
        omp_set_dynamic(0);
        omp_set_num_threads(threads);
        if (sched == 1) omp_set_schedule(omp_sched_static, chunk);
        else if (sched == 2) omp_set_schedule(omp_sched_dynamic, chunk);
        else if (sched == 3) omp_set_schedule(omp_sched_guided, chunk);
        log_n = 0; active = 0; max_active = 0; delay_mode = delay; delay_seed = dseed;
        unsigned long reg0 = vf_regions;
        bl = b0;
        in_parallel_phase = 1;
        switch (routine) {
            case 0: rl_p = dtw_distances_ptrs_parallel(ptrs, n, lengths, out_p, &bl, &s); break;
            case 1: rl_p = dtw_distances_ndim_ptrs_parallel(ptrs, n, lengths, ndim, out_p, &bl, &s); break;
            case 2: rl_p = dtw_distances_matrix_parallel(matrix, n, L0, out_p, &bl, &s); break;
            case 3: rl_p = dtw_distances_ndim_matrix_parallel(matrix, n, L0, ndim, out_p, &bl, &s); break;
            case 4: rl_p = dtw_distances_matrices_parallel(matrix, n, L0, matrix, n, L0, out_p, &bl, &s); break;
            case 5: rl_p = dtw_distances_ndim_matrices_parallel(matrix, n, L0, matrix, n, L0, ndim, out_p, &bl, &s); break;
        }
        in_parallel_phase = 0;
        // output oracle: bit-for-bit equal to the serial routine, every slot written
        idx_t mism = 0, unwritten = 0, first_bad = -1;
        for (idx_t i = 0; i < len; i++) {
            if (memcmp(&out_p[i], &pat, 8) == 0) unwritten++;
            if (memcmp(&out_p[i], &out_s[i], 8) != 0) { mism++; if (first_bad < 0) first_bad = i; }
        }
        // call history: every selected (row, col) pair computed exactly once; row ownership
        idx_t erb = b0.rb, ere = b0.re ? b0.re : n, ecb = b0.cb, ece = b0.ce ? b0.ce : n;
        idx_t expected = 0, dup = 0, missing = 0, foreign = 0, rows_multi = 0;
        int *cnt = calloc((size_t)n * n, sizeof(int));
        int *owner = malloc(n * sizeof(int));
        int tids[256]; memset(tids, 0, sizeof tids); int ntids = 0;
        for (int i = 0; i < n; i++) owner[i] = -1;
        unsigned long long sig = 1469598103934665603ULL;
        for (size_t k = 0; k < log_n; k++) {
            int r = -1, c = -1;
            for (int i = 0; i < n; i++) { if (ptrs[i] == log_buf[k].a) r = i; if (ptrs[i] == log_buf[k].b) c = i; }
            if (r < 0 || c < 0) { foreign++; continue; }
            cnt[r * n + c]++;
            int t = log_buf[k].tid;
            if (t >= 0 && t < 256 && !tids[t]) { tids[t] = 1; ntids++; }
            if (owner[r] == -1) owner[r] = t; else if (owner[r] != t && owner[r] != -2) { owner[r] = -2; rows_multi++; }
        }
        for (int i = 0; i < n; i++) { sig ^= (unsigned long long)(owner[i] + 3); sig *= 1099511628211ULL; }
        for (idx_t r = erb; r < ere; r++) for (idx_t c = ecb; c < ece; c++) {
            int sel = b0.triu ? (c > r) : 1;
            if (sel) { expected++; if (cnt[r * n + c] == 0) missing++; else if (cnt[r * n + c] > 1) dup++; }
            else if (cnt[r * n + c] > 0) foreign++;
        }
        printf("{\"id\":%ld,\"routine\":%d,\"threads\":%d,\"len\":%zd,\"ret_serial\":%zd,\"ret_parallel\":%zd,\"mismatch\":%zd,"
               "\"unwritten\":%zd,\"first_bad\":%zd,\"expected\":%zd,\"logged\":%zu,\"dup\":%zd,\"missing\":%zd,\"foreign\":%zd,"
               "\"rows_multi_owner\":%zd,\"tids\":%d,\"max_overlap\":%d,\"assign_sig\":\"%llx\",\"regions\":%lu}\n",
               id, routine, threads, len, rl_s, rl_p, mism, unwritten, first_bad, expected, log_n, dup, missing, foreign,
               rows_multi, ntids, max_active, sig, vf_regions - reg0);
        fflush(stdout);
        free(cnt); free(owner); free(out_s); free(out_p);
        if (!is_matrix) for (int i = 0; i < n; i++) free(ptrs[i]);
        free(matrix); free(ptrs); free(lengths);
    }
    return 0;
}
