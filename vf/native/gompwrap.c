// Model the fork/join happens-before edges of an OpenMP parallel region for ThreadSanitizer
// (libgomp itself is not instrumented). Linked with -Wl,--wrap=GOMP_parallel.
#include <stddef.h>
#ifdef VF_TSAN
extern void __tsan_acquire(void *addr);
extern void __tsan_release(void *addr);
#else
static void __tsan_acquire(void *a) { (void)a; }
static void __tsan_release(void *a) { (void)a; }
#endif
struct tramp { void (*fn)(void *); void *data; };
static char fork_tok, join_tok;
unsigned long vf_regions = 0;
static void tramp_fn(void *arg) {
    __tsan_acquire(&fork_tok);
    struct tramp *t = (struct tramp *)arg;
    t->fn(t->data);
    __tsan_release(&join_tok);
}
void __real_GOMP_parallel(void (*fn)(void *), void *data, unsigned num_threads, unsigned flags);
void __wrap_GOMP_parallel(void (*fn)(void *), void *data, unsigned num_threads, unsigned flags) {
    struct tramp t = { fn, data };
    vf_regions++;
    __tsan_release(&fork_tok);
    __real_GOMP_parallel(tramp_fn, &t, num_threads, flags);
    __tsan_acquire(&join_tok);
}
