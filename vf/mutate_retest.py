"""Re-run the surviving / inconclusive mutants of an earlier vf.mutate(_c) run against the current checks.
usage: python -m vf.mutate_retest --worktree /tmp/wtM --in mutation/results.jsonl --out mutation/retest.jsonl"""
import argparse
import json
import time
from pathlib import Path

from .mutate import run_check, TARGETS as PT
from .mutate_c import TARGETS as CT


def main():
    ap = argparse.ArgumentParser()
    ap.add_argument("--worktree", required=True)
    ap.add_argument("--in", dest="inp", required=True)
    ap.add_argument("--out", required=True)
    ap.add_argument("--cache", default="/var/tmp/mutcache")
    ap.add_argument("--scale", type=float, default=0.6)
    a = ap.parse_args()
    wt = Path(a.worktree)
    for l in open(a.inp):
        d = json.loads(l)
        if d["result"] == "killed":
            continue
        props = (PT.get(d["target"]) or CT.get(d["target"]))[2]
        path = wt / d["file"]
        orig = path.read_text()
        lines = orig.split("\n")
        ln = d["line"] - 1
        if ln >= len(lines) or lines[ln].strip() != d["before"]:
            # the repository moved on since the mutant was made (fix commits): find the same line nearby
            cand = [k for k in range(max(0, ln - 25), min(len(lines), ln + 26)) if lines[k].strip() == d["before"]]
            if len(cand) != 1:
                print("SKIP (source moved)", d["target"], d["line"])
                continue
            ln = cand[0]
        ind = lines[ln][: len(lines[ln]) - len(lines[ln].lstrip())]
        lines[ln] = ind + d["after"]
        path.write_text("\n".join(lines))
        t0 = time.time()
        try:
            killed, checks = None, {}
            for p in props:
                rc, kinds = run_check(p, wt, a.cache, a.scale, 1500)
                checks[p] = dict(rc=rc, kinds=kinds)
                if rc == 1:
                    killed = p
                    break
        finally:
            path.write_text(orig)
        d.update(result="killed" if killed else ("inconclusive" if any(v["rc"] == 2 for v in checks.values()) else "survived"),
                 killed_by=killed, checks=checks, seconds=round(time.time() - t0, 1), retest=True)
        with open(a.out, "a") as f:
            f.write(json.dumps(d) + "\n")
        print(d["target"], d["function"], d["line"], d["after"][:60], "=>", d["result"], killed, flush=True)


if __name__ == "__main__":
    main()
