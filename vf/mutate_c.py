"""Operator-level mutation run on the C kernels (dd_dtw.c, dd_ed.c, dd_dtw_openmp.c); see vf/mutate.py.

A mutant changes one comparison operator, one +/- or one literal 1 inside a listed C function; the extension modules
and the native harnesses are rebuilt from the scratch worktree by the checks themselves.

C08 (sanitizers) is not among the checks run per mutant: a one-token functional change rarely becomes a memory error
and its quick check alone takes over a minute per mutant.

usage: python -m vf.mutate_c --worktree /tmp/wtM --out mutation/results_c.jsonl --per-target 12 [target ...]
"""
import argparse
import json
import random
import re
import time
from pathlib import Path

from .mutate import run_check

CDIR = "src/DTAIDistanceC/DTAIDistanceC/"
TARGETS = {
    "c_distance": (CDIR + "dd_dtw.c", ["dtw_distance", "dtw_distance_ndim", "dtw_distance_euclidean", "dtw_distance_ndim_euclidean"],
                   ["C02", "C03", "C10"]),
    "c_wps": (CDIR + "dd_dtw.c", ["dtw_warping_paths_ndim", "dtw_warping_paths_ndim_euclidean", "dtw_expand_wps_slice", "dtw_wps_parts",
                                  "dtw_wps_loc", "dtw_settings_wps_width"], ["C04", "C05"]),
    "c_path": (CDIR + "dd_dtw.c", ["dtw_best_path", "dtw_best_path_customstart", "dtw_best_path_isclose", "dtw_warping_path",
                                   "dtw_warping_path_ndim"], ["C05", "C12"]),
    "c_affinity": (CDIR + "dd_dtw.c", ["dtw_warping_paths_affinity_ndim", "dtw_best_path_affinity", "dtw_wps_max", "dtw_wps_negativize",
                                       "dtw_wps_positivize", "dtw_wps_negativize_value", "dtw_expand_wps_slice_affinity"], ["C18"]),
    "c_bounds": (CDIR + "dd_dtw.c", ["lb_keogh", "lb_keogh_euclidean", "ub_euclidean", "ub_euclidean_ndim"], ["C09", "C14"]),
    "c_ed": (CDIR + "dd_ed.c", ["euclidean_distance", "euclidean_distance_ndim", "euclidean_distance_euclidean",
                                "euclidean_distance_ndim_euclidean"], ["C09", "C02"]),
    "c_matrix": (CDIR + "dd_dtw.c", ["dtw_distances_ptrs", "dtw_distances_ndim_ptrs", "dtw_distances_matrix", "dtw_distances_ndim_matrix",
                                     "dtw_distances_length", "dtw_block_is_valid"], ["C06"]),
    "c_dba": (CDIR + "dd_dtw.c", ["dtw_dba_ptrs", "dtw_dba_matrix", "bit_test"], ["C12"]),
    "c_omp": (CDIR + "dd_dtw_openmp.c", ["dtw_distances_prepare", "dtw_distances_ptrs_parallel", "dtw_distances_ndim_ptrs_parallel",
                                          "dtw_distances_matrix_parallel", "dtw_distances_ndim_matrix_parallel"], ["C07"]),
}

TOKENS = [(re.compile(r"(?<![<>=!\-+])<=(?!=)"), "<"), (re.compile(r"(?<![<>=!\-])>=(?!=)"), ">"),
          (re.compile(r"(?<![<>=!\-+&|])<(?![<=])"), "<="), (re.compile(r"(?<![<>=!\-+&|])>(?![>=])"), ">="),
          (re.compile(r"=="), "!="), (re.compile(r"!="), "=="),
          (re.compile(r"(?<=[\w\)\]] )\+(?= [\w\(])"), "-"), (re.compile(r"(?<=[\w\)\]] )-(?= [\w\(])"), "+"),
          (re.compile(r"(?<=[+\-] )1(?![\w.])"), "0"), (re.compile(r"\b(MIN|MAX)\b"), None)]


def function_ranges(lines, names):
    out = {}
    for n in names:
        pat = re.compile(r"^[A-Za-z_][\w\s\*]*\b%s\s*\(" % re.escape(n))
        for i, l in enumerate(lines):
            if pat.match(l) and not l.rstrip().endswith(";"):
                # find the closing brace in column 0
                j = i
                while j < len(lines) and not lines[j].startswith("}"):
                    j += 1
                out[n] = (i, j)
                break
    return out


def sites(lines, ranges):
    out = []
    for fn, (a, b) in ranges.items():
        for i in range(a + 1, b):
            l = lines[i]
            st = l.strip()
            if not st or st.startswith(("//", "/*", "*", "printf", "#", "assert")) or "printf(" in st:
                continue
            code = l.split("//")[0]
            if "#include" in code or "->" in code and False:
                continue
            for rx, new in TOKENS:
                for m in rx.finditer(code):
                    # skip template-ish / pointer syntax: '->' and '<' in includes are excluded by the look-arounds
                    if code[max(0, m.start() - 1): m.end() + 1].find("->") >= 0:
                        continue
                    nn = new
                    if nn is None:
                        nn = "MAX" if m.group(0) == "MIN" else "MIN"
                    out.append((i, m.start(), m.end(), m.group(0), nn, fn))
    return out


def main():
    ap = argparse.ArgumentParser()
    ap.add_argument("--worktree", required=True)
    ap.add_argument("--out", required=True)
    ap.add_argument("--per-target", type=int, default=10)
    ap.add_argument("--seed", type=int, default=1)
    ap.add_argument("--scale", type=float, default=0.4)
    ap.add_argument("--cache", default="/var/tmp/mutcache")
    ap.add_argument("targets", nargs="*")
    a = ap.parse_args()
    wt = Path(a.worktree)
    outp = Path(a.out)
    outp.parent.mkdir(parents=True, exist_ok=True)
    rng = random.Random(a.seed)
    for tname in (a.targets or list(TARGETS)):
        rel, funcs, props = TARGETS[tname]
        path = wt / rel
        orig = path.read_text()
        lines = orig.split("\n")
        ss = sites(lines, function_ranges(lines, funcs))
        rng.shuffle(ss)
        for (ln, c0, c1, old, new, fn) in ss[: a.per_target]:
            line = lines[ln]
            mut = line[:c0] + new + line[c1:]
            ml = list(lines)
            ml[ln] = mut
            path.write_text("\n".join(ml))
            rec = dict(target=tname, file=rel, function=fn, line=ln + 1, before=line.strip(), after=mut.strip(), checks={})
            t0 = time.time()
            try:
                killed = None
                for p in props:
                    rc, kinds = run_check(p, wt, a.cache, a.scale, 3000)
                    rec["checks"][p] = dict(rc=rc, kinds=kinds)
                    if rc == 1:
                        killed = p
                        break
                rec["result"] = "killed" if killed else ("inconclusive" if any(v["rc"] == 2 for v in rec["checks"].values()) else "survived")
                rec["killed_by"] = killed
            finally:
                path.write_text(orig)
            rec["seconds"] = round(time.time() - t0, 1)
            with open(outp, "a") as f:
                f.write(json.dumps(rec) + "\n")
            print(tname, fn, ln + 1, repr(old), "->", repr(new), rec["result"], rec.get("killed_by"), rec["seconds"], flush=True)


if __name__ == "__main__":
    main()
