import importlib
import json
import os
import sys


def main():
    args = sys.argv[1:]
    if not args:
        print("usage: ./check <PROP> <quick|thorough> [--replay FILE]")
        return 2
    prop = args[0]
    tier = os.environ.get("VERIF_TIER") or "quick"
    if len(args) > 1 and args[1] in ("quick", "thorough"):
        tier = args[1]
    mod = importlib.import_module("vf.workloads." + prop)
    if "--replay" in args:
        path = args[args.index("--replay") + 1]
        from . import replay
        return replay.run(prop, mod, json.load(open(path)))
    from . import runner
    specs = None
    if os.environ.get("VF_SPEC"):   # debugging aid: VF_SPEC="asan:4,plain:2"
        specs = [(v.split(":")[0], int(v.split(":")[1]), prop) for v in os.environ["VF_SPEC"].split(",")]
    return runner.run(mod.PLAN, tier, specs)


if __name__ == "__main__":
    sys.exit(main())
