"""Regenerate /verif/MANIFEST.json from the workload modules that exist."""
import importlib
import json
import os
import sys
from pathlib import Path

VERIF = Path(__file__).resolve().parent.parent

TECH = {
    "C01": "icontract postcondition on dtw.distance recomputing an independent pair-indexed reference DP (self-checked by path enumeration)",
    "C02": "differential runtime monitor: icontract postconditions on the C entry points re-run the Python engine; ASan/UBSan build in thorough",
    "C03": "relational runtime monitor: every bounded/pruned call re-executed unbounded on the same engine; sys.monitoring reach counters on the pruning break",
    "C04": "cell-wise runtime oracle on returned matrices (reference DP) + C/Python differential incl. compact expansion and slices",
    "C05": "runtime path validator (steps, band, corners) + path-cost oracle on every returned path; known finding classified by a bug-compatible back-tracking model",
    "C06": "exhaustive block enumeration with an independent pair enumerator and single-pair oracle table, both engines, all container forms",
    "C07": "ThreadSanitizer native OpenMP harness (GOMP_parallel fork/join modelled by linker wrap) + linker-wrapped call-history log (exactly-once per pair) + bitwise serial/parallel output oracle + ASan OpenMP build; Python-level OpenMP/multiprocessing vs serial",
    "C08": "AddressSanitizer + UndefinedBehaviorSanitizer: native driver with exact-size buffers over an exhaustive small grid (sentinel check of advertised outputs), the same driver as a libFuzzer target (coverage-guided, fixed seeds), ASan build of the extension under the Python workloads, valgrind memcheck in thorough",
    "C09": "icontract postconditions on the bound routines: sandwich LB_Keogh <= DTW <= ED against the same engine, independent Euclidean reference, C vs Python",
    "C10": "relational (metamorphic) runtime laws between related calls on one engine; no oracle",
    "C11": "C01/C02/C04/C05 monitors instantiated with vector point distances + d=1 reduction law + container differential",
    "C12": "runtime postconditions on every DBA step: definition via reference-DP paths when unique, range, fixed point, mask independence (explicit and default initial average, nb_initial_samples), objective monotonicity, step counter, masks of 16-70 series",
    "C13": "brute-force reference for the matching function, stream monitor on kbest_matches, prefix/stop-rule monitor on best_matches and best_matches_knee, *_fast vs use_c objects, icontract class invariant, interleaved-iterator history vs fresh objects, logical step bound",
    "C14": "exhaustive k-NN reference + op-by-op history check against fresh objects + nested C03 monitor on the search's own dtw.distance calls + match-container protocol (len/index/slice/get_ith_value) + *_fast operations",
    "C15": "online trace checker on the API's merge_hook events against the captured distance matrix + partition/tree postconditions + SciPy differential",
    "C16": "postconditions on KMeans.fit (partition, k means, nearest-mean by recomputed distances, iteration bound) + monitor_distances callback trace",
    "C17": "independent NW DP oracle (self-checked by enumeration of all alignments) + alignment consistency validator over all traceback orders",
    "C18": "cell-local recurrence invariant walked over the returned matrix, C/Python differential incl. compact slices, stream monitor with consumed-cell set on kbest_matches / kbest_matches_store (buffer 0, negative, positive; keep/restart histories vs fresh objects), logical step bound",
    "C19": "closed-form element-wise references, monotonicity/range laws and re-application check on every call",
    "C20": "global byte-level snapshot monitor on 36 public routines (icontract snapshot/ensure, nested calls included) + container differential (distances, matrices, DBA, KMeans, LinkageTree) + shared-dictionary/model histories + NumPy-blocked workers",
}
NOTE = {
}
NA = []


def main():
    props = [json.loads(l) for l in open(VERIF / "properties.jsonl")]
    checks = []
    na = list(NA)
    for p in props:
        pid = p["id"]
        if not (VERIF / "vf" / "workloads" / (pid + ".py")).exists():
            if not any(x["property_id"] == pid for x in na):
                na.append({"property_id": pid, "reason": "check not built yet in this round (planned; see DESIGN.md section 3)"})
            continue
        sys.path.insert(0, str(VERIF))
        mod = importlib.import_module("vf.workloads." + pid)
        plan = mod.PLAN
        checks.append({
            "property_id": pid,
            "quick_cmd": "./check %s quick" % pid,
            "thorough_cmd": "./check %s thorough" % pid,
            "evidence_file": "evidence/%s.json" % pid,
            "replay_cmd_template": "./check %s --replay {path}" % pid,
            "engine": "vf",
            "level_claimed": {
                "category": plan.level,
                "text": "Runtime monitoring: the real code (Python modules and C extensions rebuilt from the /repo working "
                        "tree) is executed on generated and exhaustively enumerated small cases while monitors compare "
                        "every observed call with an oracle; held means 'held on the executions listed in the evidence', "
                        "not verified for all inputs. " + plan.rule[:400],
                "design_ref": "DESIGN.md section 3, %s" % pid,
            },
            "level_note": "; ".join(plan.assumptions)[:900],
            "technique": TECH.get(pid, "runtime monitoring with an executable oracle"),
        })
    man = {
        "version": 1,
        "setup_cmd": "./setup.sh",
        "hooks": {
            "guard": "DTAIDISTANCE_VERIF",
            "enable": "no source hooks are needed: monitors are attached from the harness (icontract on module "
                      "attributes, sys.monitoring, linker --wrap, sanitizer builds of a staged copy of /repo)",
            "baseline_off_cmd": "cd /repo && /venv/bin/python -m pytest -ra -q -p no:cacheprovider --timeout=900 "
                                "--continue-on-collection-errors",
            "source_commits": [],
            "add_only": True,
        },
        "engines": [{"name": "vf", "path": "vf/", "serves_properties": [c["property_id"] for c in checks],
                     "kind_free_text": "runtime monitors + sanitizer builds, see DESIGN.md"}],
        "checks": checks,
        "not_applicable": na,
        "notes": "exit 0 = held on everything explored, 1 = VIOLATION line(s), 2 = inconclusive (build failure, dead "
                 "worker, deciding monitor never reached). Genuine defects found on the pinned tree were repaired "
                 "with fix: commits in /repo and are listed in known_findings.json under 'fixed'; four are recorded "
                 "as known findings there (bug-compatible classifiers in vf/kf_models.py) and are printed as "
                 "KNOWN-FINDING lines. ./selftest.sh applies every seeded change under seeded/ to /repo, runs the "
                 "quick check of its property and restores /repo; mutation/ holds two operator-level mutation runs "
                 "and the triage of their survivors (DESIGN.md 3b, 3c).",
    }
    (VERIF / "MANIFEST.json").write_text(json.dumps(man, indent=1))
    print("checks:", [c["property_id"] for c in checks], "not_applicable:", len(na))


if __name__ == "__main__":
    main()
