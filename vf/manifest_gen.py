"""Regenerate /verif/MANIFEST.json from the workload modules that exist."""
import importlib
import json
import os
import sys
from pathlib import Path

VERIF = Path(__file__).resolve().parent.parent

TECH = {
    "C01": "icontract postcondition on dtw.distance recomputing an independent pair-indexed reference DP (self-checked by path enumeration)",
    "C02": "differential runtime monitor: icontract postconditions on the C entry points re-run the Python engine; ASan/UBSan build in thorough",
    "C03": "relational runtime monitor: every bounded/pruned call re-executed unbounded on the same engine; sys.monitoring reach counters on the pruning break",
    "C04": "cell-wise runtime oracle on returned matrices (reference DP) + C/Python differential incl. compact expansion and slices",
}
NOTE = {
}
NA = []


def main():
    props = [json.loads(l) for l in open(VERIF / "properties.jsonl")]
    checks = []
    na = list(NA)
    for p in props:
        pid = p["id"]
        if not (VERIF / "vf" / "workloads" / (pid + ".py")).exists():
            if not any(x["property_id"] == pid for x in na):
                na.append({"property_id": pid, "reason": "check not built yet in this round (planned; see DESIGN.md section 3)"})
            continue
        sys.path.insert(0, str(VERIF))
        mod = importlib.import_module("vf.workloads." + pid)
        plan = mod.PLAN
        checks.append({
            "property_id": pid,
            "quick_cmd": "./check %s quick" % pid,
            "thorough_cmd": "./check %s thorough" % pid,
            "evidence_file": "evidence/%s.json" % pid,
            "replay_cmd_template": "./check %s --replay {path}" % pid,
            "engine": "vf",
            "level_claimed": {
                "category": plan.level,
                "text": "Runtime monitoring: the real code (Python modules and C extensions rebuilt from the /repo working "
                        "tree) is executed on generated and exhaustively enumerated small cases while monitors compare "
                        "every observed call with an oracle; held means 'held on the executions listed in the evidence', "
                        "not verified for all inputs. " + plan.rule[:400],
                "design_ref": "DESIGN.md section 3, %s" % pid,
            },
            "level_note": "; ".join(plan.assumptions)[:900],
            "technique": TECH.get(pid, "runtime monitoring with an executable oracle"),
        })
    man = {
        "version": 1,
        "setup_cmd": "./setup.sh",
        "hooks": {
            "guard": "DTAIDISTANCE_VERIF",
            "enable": "no source hooks are needed: monitors are attached from the harness (icontract on module "
                      "attributes, sys.monitoring, linker --wrap, sanitizer builds of a staged copy of /repo)",
            "baseline_off_cmd": "cd /repo && /venv/bin/python -m pytest -ra -q -p no:cacheprovider --timeout=900 "
                                "--continue-on-collection-errors",
            "source_commits": [],
            "add_only": True,
        },
        "engines": [{"name": "vf", "path": "vf/", "serves_properties": [c["property_id"] for c in checks],
                     "kind_free_text": "runtime monitors + sanitizer builds, see DESIGN.md"}],
        "checks": checks,
        "not_applicable": na,
        "notes": "exit 0 = held on everything explored, 1 = VIOLATION line(s), 2 = inconclusive (build failure, dead "
                 "worker, deciding monitor never reached). Genuine defects found on the pinned tree were repaired "
                 "with fix: commits in /repo and are listed in known_findings.json under 'fixed'.",
    }
    (VERIF / "MANIFEST.json").write_text(json.dumps(man, indent=1))
    print("checks:", [c["property_id"] for c in checks], "not_applicable:", len(na))


if __name__ == "__main__":
    main()
