"""Worker process: python -m vf.worker PROP SHARD NSHARDS SEED TIER VARIANT OUT"""
import faulthandler
import importlib
import sys
import traceback


def main():
    prop, shard, nshards, seed, tier, variant, out = sys.argv[1:8]
    faulthandler.enable()
    from vf.ctx import Ctx
    ctx = Ctx(prop, int(shard), int(nshards), int(seed), tier, variant, out)
    if int(shard) % 4 == 3:
        # observability switches must not change results: every fourth shard runs with the library's logger at DEBUG
        import logging
        lg = logging.getLogger("be.kuleuven.dtai.distance")
        lg.addHandler(logging.NullHandler())
        lg.propagate = False
        lg.setLevel(logging.DEBUG)
        ctx.count("shards_with_debug_logging")
    try:
        mod = importlib.import_module("vf.workloads." + prop)
        mod.run(ctx)
        ctx.dump("ok")
    except BaseException as e:  # noqa
        from vf.ctx import StopWorkload
        if isinstance(e, StopWorkload):
            ctx.count("stopped_early_enough_witnesses")
            ctx.dump("ok")
            return
        ctx.dump("error", "".join(traceback.format_exception(type(e), e, e.__traceback__))[-4000:])
        raise


if __name__ == "__main__":
    main()
