"""pytest plugin: run the repository's own (unedited) tests as one more workload under the monitors.
Selected by VF_SUITE_MONITORS (comma list of purity,c01,c02,c03,c04,c05,c06,c09); results go to VF_SUITE_OUT."""
import json
import os


class _Ctx:
    def __init__(self):
        from vf.ctx import Ctx
        self.c = Ctx("suite", 0, 1, 0, "thorough", os.environ.get("VF_VARIANT", "plain"), os.environ["VF_SUITE_OUT"])


_ctx = None


def pytest_configure(config):
    global _ctx
    which = set(os.environ.get("VF_SUITE_MONITORS", "purity").split(","))
    from vf.ctx import Ctx
    _ctx = Ctx("suite", 0, 1, 0, "thorough", os.environ.get("VF_VARIANT", "plain"), os.environ["VF_SUITE_OUT"])
    ctx = _ctx
    from vf import dtwmon, monitors
    from dtaidistance import dtw, dtw_cc
    if "purity" in which:
        from vf.workloads import C20
        C20.install_purity(ctx)
    if "c01" in which:
        monitors.attach(ctx, dtw, "distance", dtwmon.c01_post(ctx, maxlen=14))
    if "c02" in which and dtw_cc is not None:
        def short(post, n=120):
            def p(a, kw, result, pre):
                if len(a) >= 2 and (len(a[0]) > n or len(a[1]) > n):
                    ctx.count("suite_skipped_long_series")
                    return
                post(a, kw, result, pre)
            return p
        monitors.attach(ctx, dtw, "distance_fast", short(dtwmon.c02_post(ctx, dtw, "dtw.distance_fast", False, False)))
        monitors.attach(ctx, dtw_cc, "distance", short(dtwmon.c02_post(ctx, dtw, "dtw_cc.distance", False, True)))
    if "c03" in which:
        pyd = dtw.distance

        def pyd_unmon(s1, s2, **kw):
            kw.pop("use_c", None)
            return pyd(s1, s2, use_c=False, **kw)
        post = dtwmon.c03_distance_post(ctx, pyd_unmon, "dtw.distance")

        def p3(a, kw, result, pre):
            if kw.get("use_c") or (len(a) >= 2 and (len(a[0]) > 120 or len(a[1]) > 120)):
                return
            post(a, kw, result, pre)
        monitors.attach(ctx, dtw, "distance", p3)

    if "c04" in which:
        from vf import wpsmon

        def p4(fname):
            def post(a, kw, result, pre):
                (s1, s2), kw = dtwmon.split(a, kw)
                if not isinstance(result, tuple) or len(result) != 2 or not hasattr(result[1], "tolist"):
                    ctx.count("c04_suite_skipped_other_return_form")
                    return
                if kw.get("use_c") or kw.get("compact") or len(s1) > 60 or len(s2) > 60 or len(s1) < 1 or len(s2) < 1:
                    ctx.count("c04_suite_skipped")
                    return
                psi_neg = kw.pop("psi_neg", True if fname == "dtw.warping_paths" else False)
                keep = kw.pop("keep_int_repr", False)
                for k_ in ("use_c", "compact"):
                    kw.pop(k_, None)
                l1 = dtwmon.tolist(s1)
                if l1 and isinstance(l1[0], list) and not kw.get("use_ndim"):
                    ctx.count("c04_suite_skipped")
                    return
                wpsmon.check_matrix_vs_ref(ctx, fname, s1, s2, kw, psi_neg, keep, float(result[0]), result[1].tolist())
                ctx.count("c04_suite_matrices_checked")
                ctx.case((fname, repr(l1), repr(dtwmon.tolist(s2)), dtwmon.settings_key(kw)), min(len(s1), len(s2)) >= 2)
            return post
        monitors.attach(ctx, dtw, "warping_paths", p4("dtw.warping_paths"))
    if "c05" in which:
        from vf import wpsmon

        def p5(fname):
            def post(a, kw, result, pre):
                (s1, s2), kw = dtwmon.split(a, kw, ("from_s", "to_s"))
                if kw.pop("include_distance", False) or len(a) > 2:
                    ctx.count("c05_suite_skipped")
                    return
                if len(s1) > 60 or len(s2) > 60 or len(s1) < 1 or len(s2) < 1:
                    ctx.count("c05_suite_skipped")
                    return
                kw.pop("use_c", None)
                l1 = dtwmon.tolist(s1)
                if l1 and isinstance(l1[0], list) and not kw.get("use_ndim"):
                    ctx.count("c05_suite_skipped")
                    return
                path = [(int(x), int(y)) for x, y in result]
                wpsmon.check_path(ctx, fname, path, s1, s2, kw, dtwmon.ref_for(l1, dtwmon.tolist(s2), kw))
                ctx.count("c05_suite_paths_checked")
                ctx.case((fname, repr(l1), repr(dtwmon.tolist(s2)), dtwmon.settings_key(kw)), min(len(s1), len(s2)) >= 2)
            return post
        monitors.attach(ctx, dtw, "warping_path", p5("dtw.warping_path"))
        monitors.attach(ctx, dtw, "warping_path_fast", p5("dtw.warping_path_fast"))
    if "c09" in which:
        from vf import oracle as _o

        def p9(a, kw, result, pre):
            (s1, s2), kw = dtwmon.split(a, kw)
            if len(s1) > 200 or len(s2) > 200 or len(s1) < 1 or len(s2) < 1:
                ctx.count("c09_suite_skipped")
                return
            use_c = kw.pop("use_c", False)
            w = kw.get("window", a[2] if len(a) > 2 else None)
            skw = {k_: v_ for k_, v_ in kw.items() if k_ in ("window", "inner_dist") and v_ is not None}
            if w is not None:
                skw["window"] = w
            d = float(dtw.distance(s1, s2, **skw))
            ctx.count("c09_suite_sandwich_checks")
            ctx.case(("lb_keogh", repr(dtwmon.tolist(s1)), repr(dtwmon.tolist(s2)), dtwmon.settings_key(skw)), d > 0)
            if not (0 <= float(result) <= d * (1 + 1e-9) + 1e-12):
                ctx.violation("lb-exceeds-dtw", prop="C09", fn="dtw.lb_keogh", s1=dtwmon.tolist(s1), s2=dtwmon.tolist(s2),
                              settings=dict(dtwmon.settings_key(skw)), use_c=bool(use_c), lb=float(result), dtw=d)
        monitors.attach(ctx, dtw, "lb_keogh", p9)
    if "c06" in which:
        import numpy as _np

        def p6(a, kw, result, pre):
            (s,), kw = dtwmon.split(a, kw, ("s",))
            if kw.get("block") is not None or kw.get("compact") or kw.get("only_triu") or kw.get("parallel"):
                ctx.count("c06_suite_skipped")
                return
            try:
                n = len(s)
                lens = [len(x) for x in s]
            except Exception:
                ctx.count("c06_suite_skipped")
                return
            if n > 12 or max(lens) > 80 or not hasattr(result, "shape"):
                ctx.count("c06_suite_skipped")
                return
            skw = {k_: v_ for k_, v_ in kw.items() if k_ in ("window", "penalty", "psi", "max_step", "max_length_diff", "inner_dist",
                                                             "use_ndim") and v_ is not None}
            if kw.get("max_dist") or kw.get("use_pruning") or kw.get("max_length_diff") is not None:
                ctx.count("c06_suite_skipped")
                return
            R = _np.asarray(result)
            ctx.count("c06_suite_matrices_checked")
            ctx.case(("distance_matrix", repr([dtwmon.tolist(x) for x in s]), dtwmon.settings_key(skw)), n >= 3)
            for i in range(n):
                for j in range(n):
                    want = 0.0 if i == j else float(dtw.distance(s[min(i, j)], s[max(i, j)], **skw))
                    if not _o.close(float(R[i, j]), want) and not dtwmon.engines_agree(float(R[i, j]), want):
                        ctx.violation("square-entry", prop="C06", fn="dtw.distance_matrix", entry=[i, j], got=float(R[i, j]), want=want,
                                      series=[dtwmon.tolist(x) for x in s], settings=dict(dtwmon.settings_key(kw)))
                        return
        from vf import oracle as _o
        monitors.attach(ctx, dtw, "distance_matrix", p6)


def pytest_runtest_logreport(report):
    if _ctx is not None and report.when == "call":
        _ctx.count("suite_tests_" + report.outcome)


def pytest_sessionfinish(session, exitstatus):
    if _ctx is not None:
        _ctx.dump("ok")
