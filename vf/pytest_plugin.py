"""pytest plugin: run the repository's own (unedited) tests as one more workload under the monitors.
Selected by VF_SUITE_MONITORS (comma list of purity,c01,c02,c03); results go to VF_SUITE_OUT."""
import json
import os


class _Ctx:
    def __init__(self):
        from vf.ctx import Ctx
        self.c = Ctx("suite", 0, 1, 0, "thorough", os.environ.get("VF_VARIANT", "plain"), os.environ["VF_SUITE_OUT"])


_ctx = None


def pytest_configure(config):
    global _ctx
    which = set(os.environ.get("VF_SUITE_MONITORS", "purity").split(","))
    from vf.ctx import Ctx
    _ctx = Ctx("suite", 0, 1, 0, "thorough", os.environ.get("VF_VARIANT", "plain"), os.environ["VF_SUITE_OUT"])
    ctx = _ctx
    from vf import dtwmon, monitors
    from dtaidistance import dtw, dtw_cc
    if "purity" in which:
        from vf.workloads import C20
        C20.install_purity(ctx)
    if "c01" in which:
        monitors.attach(ctx, dtw, "distance", dtwmon.c01_post(ctx, maxlen=14))
    if "c02" in which and dtw_cc is not None:
        def short(post, n=120):
            def p(a, kw, result, pre):
                if len(a) >= 2 and (len(a[0]) > n or len(a[1]) > n):
                    ctx.count("suite_skipped_long_series")
                    return
                post(a, kw, result, pre)
            return p
        monitors.attach(ctx, dtw, "distance_fast", short(dtwmon.c02_post(ctx, dtw, "dtw.distance_fast", False, False)))
        monitors.attach(ctx, dtw_cc, "distance", short(dtwmon.c02_post(ctx, dtw, "dtw_cc.distance", False, True)))
    if "c03" in which:
        pyd = dtw.distance

        def pyd_unmon(s1, s2, **kw):
            kw.pop("use_c", None)
            return pyd(s1, s2, use_c=False, **kw)
        post = dtwmon.c03_distance_post(ctx, pyd_unmon, "dtw.distance")

        def p3(a, kw, result, pre):
            if kw.get("use_c") or (len(a) >= 2 and (len(a[0]) > 120 or len(a[1]) > 120)):
                return
            post(a, kw, result, pre)
        monitors.attach(ctx, dtw, "distance", p3)


def pytest_runtest_logreport(report):
    if _ctx is not None and report.when == "call":
        _ctx.count("suite_tests_" + report.outcome)


def pytest_sessionfinish(session, exitstatus):
    if _ctx is not None:
        _ctx.dump("ok")
