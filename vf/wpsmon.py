"""Monitors for accumulated-cost matrices (C04) and paths (C05)."""
import math

from . import dtwmon, oracle
from .oracle import inf


def ref_cells(s1, s2, kw, keep_int_repr):
    """reference matrix over pairs, in the representation the call returns"""
    inn = dtwmon.inner_of(kw)
    pen = inn.ival(kw["penalty"]) if kw.get("penalty") else 0.0
    ms = inn.ival(kw["max_step"]) if kw.get("max_step") else inf
    psi = oracle.norm_psi(kw.get("psi"))
    best = oracle.ref_matrix(s1, s2, kw.get("window"), pen, psi, ms, inn.dist)
    if not keep_int_repr:
        best = [[(inn.result(v) if v != inf else inf) for v in row] for row in best]
    return best, inn, psi


def neg_marking_ok(M, r, c, d, psi, psi_neg):
    """-1 cells: only when requested, only a suffix of the last row or of the last column inside
    the end-relaxed range, preceded by the cell holding the returned distance"""
    neg = [(i, j) for i in range(len(M)) for j in range(len(M[0])) if M[i][j] == -1]
    if not neg:
        return None
    if not psi_neg:
        return "-1 cells although psi_neg was not requested"
    _, p1e, _, p2e = psi
    rows = {i for i, j in neg}
    cols = {j for i, j in neg}
    reasons = []
    if rows == {r} and (r, c) in neg:
        js = sorted(cols)
        if js != list(range(js[0], c + 1)):
            reasons.append("-1 cells are not a suffix of the last row")
        elif c - (js[0] - 1) > p2e:
            reasons.append("-1 marking exceeds psi_2e")
        elif d != inf and not dtwmon.engines_agree(M[r][js[0] - 1], d):
            reasons.append("cell before the -1 row suffix does not hold the returned distance")
        else:
            return None
    if cols == {c} and (r, c) in neg:
        is_ = sorted(rows)
        if is_ != list(range(is_[0], r + 1)):
            reasons.append("-1 cells are not a suffix of the last column")
        elif r - (is_[0] - 1) > p1e:
            reasons.append("-1 marking exceeds psi_1e")
        elif d != inf and not dtwmon.engines_agree(M[is_[0] - 1][c], d):
            reasons.append("cell before the -1 column suffix does not hold the returned distance")
        else:
            return None
    if reasons:
        return "; ".join(reasons)
    return "-1 cells outside the last row/column suffix: %r" % (neg[:6],)


def check_matrix_vs_ref(ctx, fname, s1, s2, kw, psi_neg, keep, d, M, label="C04", extra=None):
    """(d, M) returned by a warping_paths routine against the reference DP"""
    l1, l2 = dtwmon.tolist(s1), dtwmon.tolist(s2)
    r, c = len(l1), len(l2)
    wit = dict(prop=label, fn=fname, s1=l1, s2=l2, settings=dict(dtwmon.settings_key(kw)), psi_neg=psi_neg,
               keep_int_repr=keep)
    if extra:
        wit.update(extra)
    shape = (len(M), len(M[0]) if len(M) else 0)
    if shape != (r + 1, c + 1):
        ctx.violation("matrix-shape", got=list(shape), want=[r + 1, c + 1], **wit)
        return False
    best, inn, psi = ref_cells(l1, l2, kw, keep)
    w = kw.get("window") or max(r, c)
    m = kw.get("max_dist") or None
    bound = inf
    if m is not None:
        bound = inn.ival(m) if keep else m
    if kw.get("use_pruning") and dtwmon.valid_ub_domain(kw, r, c):      # elsewhere the engines must not prune
        ub = oracle.ref_ed(l1, l2, inn.dist, (lambda x: x) if keep else inn.result)
        bound = min(bound, ub)
    ncells = 0
    for i in range(r):
        for j in range(c):
            got = M[i + 1][j + 1]
            if got == -1:
                continue
            if not oracle.in_band(i, j, r, c, w):
                if got != inf:
                    ctx.violation("finite-outside-band", cell=[i + 1, j + 1], got=got, **wit)
                    return False
                continue
            want = best[i][j]
            ncells += 1
            if want > bound * (1 - 1e-9):
                if not (got == inf or got > bound * (1 - 1e-9) or oracle.close(got, want)):
                    ctx.violation("cell-below-bound-but-optimum-above", cell=[i + 1, j + 1], got=got, want=want,
                                  bound=bound, **wit)
                    return False
                continue
            if not oracle.close(got, want):
                ctx.violation("cell-mismatch", cell=[i + 1, j + 1], got=got, want=want, **wit)
                return False
    ctx.count("c04_cells_checked", ncells)
    msg = neg_marking_ok(M, r, c, d, psi, psi_neg)
    if msg:
        ctx.violation("neg-marking", reason=msg, d=d, lastrow=M[r], lastcol=[row[c] for row in M], **wit)
        return False
    # returned distance: optimum over the relaxed end cells (with the max_dist cut)
    v = oracle.ref_value(best, r, c, psi)
    dcut = (inn.ival(m) if keep else m) if m is not None else None
    if dcut is not None and dtwmon.near_threshold(v, dcut, 1e-6):
        return True
    want_d = inf if (dcut is not None and v > dcut) else v
    if kw.get("max_length_diff") is not None and abs(r - c) > kw["max_length_diff"]:
        want_d = inf
    if not oracle.close(float(d), want_d):
        ctx.violation("distance-mismatch", got=float(d), want=want_d, **wit)
        return False
    return True


def compare_matrices(ctx, fname, s1, s2, kw, psi_neg, keep, dC, MC, dP, MP, label="C04", extra=None):
    """C matrix vs Python matrix (same call), up to the documented freedoms"""
    l1, l2 = dtwmon.tolist(s1), dtwmon.tolist(s2)
    r, c = len(l1), len(l2)
    wit = dict(prop=label, fn=fname, s1=l1, s2=l2, settings=dict(dtwmon.settings_key(kw)), psi_neg=psi_neg,
               keep_int_repr=keep)
    if extra:
        wit.update(extra)
    if (len(MC), len(MC[0])) != (len(MP), len(MP[0])):
        ctx.violation("matrix-shape", got=[len(MC), len(MC[0])], want=[len(MP), len(MP[0])], **wit)
        return False
    inn = dtwmon.inner_of(kw)
    m = kw.get("max_dist") or None
    bound = inf
    if m is not None:
        bound = inn.ival(m) if keep else m
    if kw.get("use_pruning") and dtwmon.valid_ub_domain(kw, r, c):      # elsewhere the engines must not prune
        ub = oracle.ref_ed(l1, l2, inn.dist, (lambda x: x) if keep else inn.result)
        bound = min(bound, ub)
    for i in range(1, r + 1):
        for j in range(1, c + 1):
            a, b = MC[i][j], MP[i][j]
            if a == -1 or b == -1:
                continue
            if b > bound * (1 - 1e-9):
                if not (a == inf or a > bound * (1 - 1e-9) or dtwmon.engines_agree(a, b, ctx)):
                    ctx.violation("engine-cell-mismatch", cell=[i, j], c=a, python=b, bound=bound, **wit)
                    return False
                continue
            if not dtwmon.engines_agree(a, b, ctx):
                ctx.violation("engine-cell-mismatch", cell=[i, j], c=a, python=b, **wit)
                return False
    ctx.count("c04_engine_cells_compared", r * c)
    if psi_neg and m is None and not kw.get("use_pruning"):
        # "yields the same matrix": the two engines skip the same end cells (they break ties between equally good
        # relaxed end points the same way)
        negc = [(i, j) for i in range(r + 1) for j in range(c + 1) if MC[i][j] == -1]
        negp = [(i, j) for i in range(r + 1) for j in range(c + 1) if MP[i][j] == -1]
        ctx.count("c04_neg_marking_sets_compared")
        if negc != negp:
            ctx.violation("neg-marking-differs-between-engines", c_cells=negc[:12], python_cells=negp[:12], **wit)
            return False
    dcut = (inn.ival(m) if keep else m) if m is not None else None
    if dcut is not None and (dtwmon.near_threshold(dP, dcut, 1e-6) or dtwmon.near_threshold(dC, dcut, 1e-6)):
        return True
    if not dtwmon.engines_agree(dC, dP, ctx):
        ctx.violation("engine-distance-mismatch", c=float(dC), python=float(dP), **wit)
        return False
    return True


# ------------------------------------------------------------------ C05: paths
def path_report(path, s1, s2, kw, start_cell=None):
    """(reason|None, transformed cost along the path)"""
    l1, l2 = dtwmon.tolist(s1), dtwmon.tolist(s2)
    r, c = len(l1), len(l2)
    inn = dtwmon.inner_of(kw)
    psi = oracle.norm_psi(kw.get("psi"))
    path = [(int(i), int(j)) for i, j in path]
    reason = oracle.validate_path(path, r, c, kw.get("window"), psi, start_cell)
    if reason:
        return reason, None
    pen = inn.ival(kw["penalty"]) if kw.get("penalty") else 0.0
    ms = inn.ival(kw["max_step"]) if kw.get("max_step") else inf
    cost = oracle.path_cost(path, l1, l2, pen, ms, inn.dist)
    return None, (inn.result(cost) if cost != inf else inf)


def check_path(ctx, fname, path, s1, s2, kw, want_d, label="C05", start_cell=None, extra=None):
    """path must be valid and its cost must equal want_d (the distance reported for the same settings)"""
    l1, l2 = dtwmon.tolist(s1), dtwmon.tolist(s2)
    wit = dict(prop=label, fn=fname, s1=l1, s2=l2, settings=dict(dtwmon.settings_key(kw)),
               path=[list(map(int, p)) for p in path])
    if extra:
        wit.update(extra)
    ctx.count("c05_paths_checked")
    reason, cost = path_report(path, s1, s2, kw, start_cell)
    if reason:
        ctx.violation("invalid-path", reason=reason, **wit)
        return False
    if want_d is not None and not oracle.close(cost, float(want_d), rel=1e-9, abs_=1e-9):
        ctx.violation("path-cost-differs-from-distance", path_cost=cost, distance=float(want_d), **wit)
        return False
    return True


# ------------------------------------------- bug-compatible model for the known C05 finding
def greedy_backtrack_models(M, penalty):
    """Paths produced by greedy argmin back-tracking over a matrix whose end-relaxed cells are
    marked -1, for the three tie-breaking orders found in the library (Python best_path, C
    dtw_best_path, best_path2).  -1 compares as the smallest value, which is exactly the
    defective mechanism: the walk follows the -1 chain but may leave it through a smaller
    neighbour instead of reaching the cell that holds the distance."""
    out = []
    r, c = len(M) - 1, len(M[0]) - 1
    for variant in ("py", "c", "bp2"):
        i, j = r, c
        p = []
        if M[i][j] != -1:
            p.append((i - 1, j - 1))
        v = M[i][j]
        while i > 0 and j > 0:
            dg, up, lf = M[i - 1][j - 1], M[i - 1][j], M[i][j - 1]
            if variant == "py":
                cand = [dg, up + penalty, lf + penalty]
                k = cand.index(min(cand))
            elif variant == "c":
                if dg <= lf + penalty and dg <= up + penalty:
                    k = 0
                elif lf <= up:
                    k = 2
                else:
                    k = 1
            else:
                if v == -1:
                    v = inf
                k = None
                if dg <= v:
                    k, v = 0, dg
                if up <= v:
                    k, v = 1, up
                if lf <= v:
                    k, v = 2, lf
                if k is None:
                    break
            if k == 0:
                i, j = i - 1, j - 1
            elif k == 1:
                i -= 1
            else:
                j -= 1
            if variant != "bp2":
                v = M[i][j]
            if M[i][j] != -1:
                p.append((i - 1, j - 1))
        if p:
            p.pop()
        p.reverse()
        out.append([list(x) for x in p])
    return out
