"""Build native harnesses that link the C sources of the staged tree."""
import os
import re
import subprocess
from pathlib import Path

from . import build

NATIVE = Path(__file__).resolve().parent / "native"


def cc(cmd, cwd):
    r = subprocess.run(cmd, cwd=cwd, capture_output=True, text=True, timeout=600)
    if r.returncode != 0:
        raise build.BuildError("native build failed: %s\n%s" % (" ".join(map(str, cmd)), (r.stdout + r.stderr)[-3000:]))


def omp_harness(tree, out_dir, flavour):
    """flavour: tsan | tsan-rt (schedule(runtime) variant) | asan | plain ; returns (exe|None, note)"""
    src = build.csrc(tree)
    out_dir = Path(out_dir)
    out_dir.mkdir(parents=True, exist_ok=True)
    omp_c = src / "dd_dtw_openmp.c"
    note = ""
    if flavour.endswith("-rt"):
        text = omp_c.read_text()
        n = len(re.findall(r"schedule\(\s*guided\s*\)", text))
        if n == 0:
            return None, "no schedule(guided) clause found; runtime-schedule variant skipped"
        text = re.sub(r"schedule\(\s*guided\s*\)", "schedule(runtime)", text)
        omp_c = out_dir / "dd_dtw_openmp_rt.c"
        omp_c.write_text(text)
        note = "%d schedule(guided) clauses replaced by schedule(runtime)" % n
    san = {"tsan": ["-fsanitize=thread", "-DVF_TSAN"], "asan": ["-fsanitize=address,undefined"], "plain": []}[flavour.split("-")[0]]
    exe = out_dir / ("omp_drive_" + flavour)
    cmd = ["gcc", "-fopenmp", "-O1", "-g", "-DNDEBUG", "-I" + str(src)] + san + [
        str(NATIVE / "omp_drive.c"), str(NATIVE / "gompwrap.c"), str(omp_c), str(src / "dd_dtw.c"), str(src / "dd_ed.c"),
        "-lm", "-Wl,--wrap=GOMP_parallel,--wrap=dtw_distance,--wrap=dtw_distance_ndim", "-o", str(exe)]
    cc(cmd, out_dir)
    # the fork/join model is only sound if GOMP_parallel is the only fork entry point used
    objs = subprocess.run(["gcc", "-fopenmp", "-O1", "-c", str(omp_c), "-I" + str(src), "-o", str(out_dir / "probe.o")],
                          capture_output=True, text=True)
    nm = subprocess.run(["nm", "-u", str(out_dir / "probe.o")], capture_output=True, text=True).stdout
    forks = sorted(set(re.findall(r"GOMP_parallel\w*|GOMP_task\w*|GOMP_teams\w*", nm)))
    if [f for f in forks if f != "GOMP_parallel"]:
        raise build.BuildError("unmodelled OpenMP fork entry points: %r" % forks)
    return exe, note


def drive(tree, out_dir, flavour):
    """C08 native driver: flavour asan | plain"""
    src = build.csrc(tree)
    out_dir = Path(out_dir)
    out_dir.mkdir(parents=True, exist_ok=True)
    exe = out_dir / ("drive_" + flavour)
    san = ["-fsanitize=address,undefined", "-fsanitize-recover=address,undefined"] if flavour == "asan" else []
    omp = []
    if flavour == "asan" and (src / "dd_dtw_openmp.c").exists():
        # the OpenMP twins of the distance-matrix routines are exported C routines too
        omp = ["-fopenmp", "-DVF_OMP", str(src / "dd_dtw_openmp.c")]
    cc(["gcc", "-O1", "-g", "-DNDEBUG", "-I" + str(src)] + san + omp +
       [str(NATIVE / "drive.c"), str(src / "dd_dtw.c"), str(src / "dd_ed.c"), "-lm", "-o", str(exe)], out_dir)
    return exe


def fuzz(tree, out_dir):
    """C08 libFuzzer harness (clang): drive.c with -DVF_FUZZ under ASan+UBSan; returns exe or None if clang/libFuzzer is missing"""
    import shutil
    if not shutil.which("clang"):
        return None
    src = build.csrc(tree)
    out_dir = Path(out_dir)
    out_dir.mkdir(parents=True, exist_ok=True)
    exe = out_dir / "drive_fuzz"
    try:
        cc(["clang", "-O1", "-g", "-DNDEBUG", "-DVF_FUZZ", "-fsanitize=fuzzer,address,undefined",
            "-fno-sanitize-recover=undefined", "-I" + str(src), str(NATIVE / "drive.c"), str(src / "dd_dtw.c"),
            str(src / "dd_ed.c"), "-lm", "-o", str(exe)], out_dir)
    except build.BuildError:
        # does the plain gcc build work?  then the library compiles and only the fuzzer tool chain is unusable
        return None
    return exe


def drive_coverage(tree, out_dir, seed):
    """gcov line coverage per function of dd_dtw.c / dd_ed.c reached by the C08 native driver"""
    import re
    src = build.csrc(tree)
    out_dir = Path(out_dir) / "cov"
    out_dir.mkdir(parents=True, exist_ok=True)
    exe = out_dir / "drive_cov"
    cc(["gcc", "--coverage", "-O0", "-g", "-DNDEBUG", "-I" + str(src), str(NATIVE / "drive.c"), str(src / "dd_dtw.c"),
        str(src / "dd_ed.c"), "-lm", "-o", str(exe)], out_dir)
    subprocess.run([str(exe), "4", "0", "2", str(seed)], cwd=out_dir, capture_output=True, timeout=600)
    res = {}
    for gcda in sorted(out_dir.glob("*dd_*.gcda")):
        t = subprocess.run(["gcov", "-f", "-o", ".", gcda.name], cwd=out_dir, capture_output=True, text=True).stdout
        for m in re.finditer(r"Function '(\w+)'\nLines executed:([\d.]+)% of (\d+)", t):
            res[m.group(1)] = [float(m.group(2)), int(m.group(3))]
    return res
