"""Stage the *current* /repo working tree into scratch and build variants from it.

A content hash of the staged sources keys a bounded cache; nothing depends on the
cache being present (a miss only costs the build).
"""
import fcntl
import hashlib
import os
import shutil
import subprocess
import sys
import time
from pathlib import Path

REPO = Path(os.environ.get("VERIF_REPO", "/repo"))
VERIF = Path(__file__).resolve().parent.parent
CACHE = Path(os.environ.get("VERIF_CACHE", "/var/tmp/dtaidistance-verif-cache"))
PY = "/venv/bin/python"
MAX_TREES = int(os.environ.get("VERIF_CACHE_TREES", "3"))

SRC_DIRS = ["src/dtaidistance", "src/DTAIDistanceC/DTAIDistanceC"]
TOP_FILES = ["setup.py", "pyproject.toml", "MANIFEST.in", "README.md", "LICENSE"]
GENERATED = {"dtw_cc.c", "dtw_cc_omp.c", "ed_cc.c", "util_numpy_cc.c", "dtw_cc_numpy.c"}


class BuildError(Exception):
    pass


def _source_files():
    out = []
    for d in SRC_DIRS:
        base = REPO / d
        for p in sorted(base.rglob("*")):
            if not p.is_file():
                continue
            n = p.name
            if n.endswith((".so", ".pyc", ".o", ".html", ".log")) or n in GENERATED:
                continue
            if "__pycache__" in p.parts or "build" in p.parts[len(base.parts):]:
                continue
            out.append(p)
    for f in TOP_FILES:
        p = REPO / f
        if p.is_file():
            out.append(p)
    return out


def tree_hash():
    h = hashlib.sha256()
    for p in _source_files():
        h.update(str(p.relative_to(REPO)).encode())
        h.update(b"\0")
        h.update(p.read_bytes())
        h.update(b"\0")
    # the native harness sources are part of what gets built
    for p in sorted((VERIF / "vf" / "native").glob("*")):
        if p.is_file():
            h.update(p.name.encode())
            h.update(p.read_bytes())
    return h.hexdigest()[:20]


def ext_hash():
    """hash of everything the compiled extension modules depend on (a change to a .py module of the package
    does not require recompiling: the built .so files are reused)"""
    h = hashlib.sha256()
    for p in _source_files():
        if p.suffix == ".py" and p.name != "setup.py":
            continue
        if "jinja" in p.parts:
            continue
        h.update(str(p.relative_to(REPO)).encode())
        h.update(b"\0")
        h.update(p.read_bytes())
        h.update(b"\0")
    return h.hexdigest()[:20]


def _ext_cache(variant):
    return CACHE / "_ext" / ("%s-%s" % (ext_hash(), variant))


def _stage(dst):
    for p in _source_files():
        rel = p.relative_to(REPO)
        q = dst / rel
        q.parent.mkdir(parents=True, exist_ok=True)
        shutil.copy2(p, q)


def _evict(keep):
    if not CACHE.is_dir():
        return
    trees = [d for d in CACHE.iterdir() if d.is_dir() and d.name != keep and not d.name.startswith("_")]
    trees.sort(key=lambda d: d.stat().st_mtime)
    while len(trees) >= MAX_TREES:
        victim = trees.pop(0)
        lock = CACHE / (victim.name + ".lock")
        try:
            with open(lock, "w") as lf:
                fcntl.flock(lf, fcntl.LOCK_EX | fcntl.LOCK_NB)
                shutil.rmtree(victim, ignore_errors=True)
        except OSError:
            pass
        try:
            lock.unlink()
        except OSError:
            pass


SAN_CFLAGS = "-fsanitize=address,undefined -fsanitize-recover=address,undefined -fno-omit-frame-pointer -O1 -g -DNDEBUG"


def _build_ext(tree, variant, log):
    env = dict(os.environ)
    env.pop("PYTHONPATH", None)
    if variant == "asan":
        env["CFLAGS"] = SAN_CFLAGS
        env["LDFLAGS"] = "-fsanitize=address,undefined"
    cmd = [PY, "setup.py", "build_ext", "--inplace", "-j", "8"]
    with open(log, "w") as lf:
        r = subprocess.run(cmd, cwd=tree, env=env, stdout=lf, stderr=subprocess.STDOUT, timeout=900)
    need = ["dtw_cc", "dtw_cc_omp", "ed_cc", "dtw_cc_numpy"]
    have = [n for n in need if list((tree / "src/dtaidistance").glob(n + ".*.so"))]
    if r.returncode != 0 or len(have) != len(need):
        tail = Path(log).read_text(errors="replace")[-3000:]
        raise BuildError("extension build (%s) failed: have=%s\n%s" % (variant, have, tail))


def ensure(variant="plain"):
    """Return the path of a tree (containing src/...) built as `variant` from the
    current working tree of /repo.  Raises BuildError (=> inconclusive)."""
    assert variant in ("plain", "asan")
    key = tree_hash()
    if os.environ.get("VERIF_NO_CACHE") == "1":
        root = Path(os.environ.get("TMPDIR", "/var/tmp")) / ("dtaiverif-%d-%s" % (os.getpid(), key))
    else:
        root = CACHE / key
    CACHE.mkdir(parents=True, exist_ok=True)
    lockp = CACHE / (key + ".lock")
    with open(lockp, "w") as lf:
        fcntl.flock(lf, fcntl.LOCK_EX)
        tree = root / variant
        ok = tree / ".built"
        if not ok.exists():
            _evict(key)
            if tree.exists():
                shutil.rmtree(tree)
            tree.mkdir(parents=True)
            _stage(tree)
            t0 = time.time()
            ec = _ext_cache(variant)
            if (ec / ".complete").exists() and os.environ.get("VERIF_NO_CACHE") != "1":
                for so in ec.glob("*.so"):
                    shutil.copy2(so, tree / "src/dtaidistance" / so.name)
                (tree / "build.log").write_text("extension modules reused from %s (C/Cython sources unchanged)\n" % ec)
            else:
                try:
                    _build_ext(tree, variant, tree / "build.log")
                except Exception:
                    shutil.rmtree(tree, ignore_errors=True)
                    raise
                shutil.rmtree(tree / "build", ignore_errors=True)
                try:
                    old = sorted((CACHE / "_ext").glob("*"), key=lambda d: d.stat().st_mtime) if (CACHE / "_ext").is_dir() else []
                    for victim in old[:-5]:
                        shutil.rmtree(victim, ignore_errors=True)
                    tmp = ec.with_name(ec.name + ".tmp%d" % os.getpid())
                    tmp.mkdir(parents=True, exist_ok=True)
                    for so in (tree / "src/dtaidistance").glob("*.so"):
                        shutil.copy2(so, tmp / so.name)
                    (tmp / ".complete").write_text("ok")
                    if ec.exists():
                        shutil.rmtree(tmp, ignore_errors=True)
                    else:
                        tmp.rename(ec)
                except OSError:
                    pass
            ok.write_text("%.1f" % (time.time() - t0))
        os.utime(root, None)
    return tree


def csrc(tree):
    return tree / "src/DTAIDistanceC/DTAIDistanceC"


def libasan():
    return subprocess.run(["gcc", "-print-file-name=libasan.so"], capture_output=True, text=True).stdout.strip()


if __name__ == "__main__":
    t0 = time.time()
    for v in sys.argv[1:] or ["plain"]:
        print(v, ensure(v), "%.1fs" % (time.time() - t0))
