"""Worker-side context: counters, distinct non-trivial cases, samples, violations."""
import hashlib
import json
import os
import random
import time

MAX_VIOL_PER_KIND = 25
_KNOWN = None
STOP_AFTER = int(os.environ.get("VF_STOP_AFTER", "0") or 0)


class StopWorkload(BaseException):
    """raised by Ctx.violation when VF_STOP_AFTER witnesses were recorded (never set by a registered command)"""
MAX_SAMPLES = 4


def jsonable(o, depth=0):
    try:
        import numpy as np
    except Exception:
        np = None
    import array as _array
    if o is None or isinstance(o, (bool, int, str)):
        return o
    if isinstance(o, float):
        if o != o:
            return "nan"
        if o in (float("inf"), float("-inf")):
            return "inf" if o > 0 else "-inf"
        return o
    if np is not None and isinstance(o, np.generic):
        return jsonable(o.item())
    if np is not None and isinstance(o, np.ndarray):
        return jsonable(o.tolist(), depth + 1)
    if isinstance(o, _array.array):
        return jsonable(list(o), depth + 1)
    if isinstance(o, dict):
        return {str(k): jsonable(v, depth + 1) for k, v in o.items()}
    if isinstance(o, (list, tuple, set, frozenset)):
        return [jsonable(v, depth + 1) for v in o]
    return repr(o)[:300]


class Ctx:
    def __init__(self, prop, shard, nshards, seed, tier, variant, out):
        self.prop, self.shard, self.nshards = prop, shard, nshards
        self.seed, self.tier, self.variant, self.out = seed, tier, variant, out
        h = hashlib.sha256(("%s/%d/%d/%s" % (prop, seed, shard, variant)).encode()).digest()
        self.rng = random.Random(int.from_bytes(h[:8], "big"))
        self.counters = {}
        self.evaluations = 0
        self.nontrivial = set()
        self.samples = []
        self.violations = []
        self.viol_counts = {}
        self.cap_counts = {}
        self.reached = set()
        self.notes = {}
        self.t0 = time.time()
        self.quick = tier == "quick"
        self._curf = None
        self.maxulp = 0

    # -- bookkeeping
    def count(self, name, n=1):
        self.counters[name] = self.counters.get(name, 0) + n

    def reach(self, name):
        self.reached.add(name)

    def case(self, key, nontrivial=True):
        """one explored case; key identifies it (function + canonical arguments)"""
        self.evaluations += 1
        if nontrivial:
            h = hashlib.blake2b(repr(key).encode(), digest_size=8).hexdigest()
            self.nontrivial.add(h)
        # option axes actually exercised (settings keys as produced by dtwmon.settings_key inside the case key)
        if isinstance(key, tuple):
            for e in key:
                if type(e) is tuple and e and type(e[0]) is tuple and len(e[0]) == 2 and type(e[0][0]) is str:
                    for kv in e:
                        if type(kv) is tuple and len(kv) == 2 and type(kv[0]) is str and kv[1] is not None and kv[1] is not False:
                            name = "axis:" + kv[0] + (":per-series" if type(kv[1]) is tuple else "")
                            self.counters[name] = self.counters.get(name, 0) + 1

    def sample(self, obj, force=False):
        if len(self.samples) < MAX_SAMPLES or force:
            self.samples.append(jsonable(obj))

    def violation(self, kind, **witness):
        self.viol_counts[kind] = self.viol_counts.get(kind, 0) + 1
        w = jsonable(witness)
        w["kind"] = kind
        w["prop"] = witness.get("prop", self.prop)
        # Witnesses are capped per (kind, function) - and witnesses that a known-finding classifier recognises have a
        # cap of their own, so that a known finding can never use up the room of a new violation of the same kind.
        capkey = (kind, str(w.get("fn"))[:60])
        try:
            global _KNOWN
            if _KNOWN is None:
                from . import findings
                _KNOWN = (findings, findings.load().get("known", []))
            kf = _KNOWN[0].classify(w, _KNOWN[1])
            if kf is not None:
                capkey = ("known-finding", kf.get("id"))
        except Exception:
            pass
        n = self.cap_counts.get(capkey, 0)
        self.cap_counts[capkey] = n + 1
        # witnesses of known findings never count towards the early stop of mutation / seeded-change runs
        total = sum(v for k_, v in self.cap_counts.items() if k_[0] != "known-finding")
        if n < MAX_VIOL_PER_KIND:
            w["variant"] = self.variant
            w["shard"] = self.shard
            w["replay"] = dict(module=self.prop, shard=self.shard, nshards=self.nshards, seed=self.seed, tier=self.tier,
                               variant=self.variant)
            self.violations.append(w)
        elif STOP_AFTER and total >= STOP_AFTER:
            # mutation / seeded-change runs only (VF_STOP_AFTER): enough witnesses, end this worker
            raise StopWorkload()

    def scale(self, quick, thorough):
        """number of random cases per shard; VF_SCALE multiplies (e.g. 0.1 for a smoke run)"""
        n = quick if self.quick else thorough
        return max(1, int(n * float(os.environ.get("VF_SCALE", "1"))))

    def mine(self, idx):
        """round-robin sharding of enumerated grids"""
        return idx % self.nshards == self.shard

    def current(self, desc):
        """record the case about to run (survives a crash of the process)"""
        if self._curf is None:
            self._curf = open(self.out + ".cur", "w")
        f = self._curf
        f.seek(0)
        f.write(desc)
        f.write("\n")
        f.truncate()
        f.flush()

    def elapsed(self):
        return time.time() - self.t0

    def dump(self, status="ok", error=None):
        data = dict(prop=self.prop, shard=self.shard, variant=self.variant, status=status, error=error,
                    evaluations=self.evaluations, nontrivial=sorted(self.nontrivial),
                    counters=self.counters, samples=self.samples, violations=self.violations,
                    viol_counts=self.viol_counts, reached=sorted(self.reached), notes=jsonable(self.notes),
                    wall=self.elapsed(), maxulp=self.maxulp)
        tmp = self.out + ".tmp"
        with open(tmp, "w") as f:
            json.dump(data, f)
        os.replace(tmp, self.out)
