"""./check <PROP> --replay <witness.json>: re-execute the shard that produced a witness against a
fresh build of the current tree and report whether a violation of the same kind re-appears."""
import json
import os
import shutil
import tempfile

from . import build, runner


def run(prop, mod, witness):
    rp = witness.get("replay")
    if not rp:
        print("witness has no replay information (native / sanitizer witnesses are replayed by re-running the check "
              "with the same VERIF_SEED)")
        os.environ.setdefault("VERIF_SEED", "0")
        return runner.run(mod.PLAN, "quick")
    scratch = tempfile.mkdtemp(prefix="dtaiverif-replay-", dir=os.environ.get("TMPDIR", "/var/tmp"))
    try:
        tree = build.ensure(rp["variant"].split("-")[0])
        logdir = os.path.join(scratch, "w")
        os.makedirs(logdir)
        out = os.path.join(logdir, "result.json")
        env = runner._worker_env(tree, rp["variant"], logdir)
        import subprocess
        cmd = [runner.PY, "-m", "vf.worker", rp["module"], str(rp["shard"]), str(rp["nshards"]), str(rp["seed"]), rp["tier"],
               rp["variant"], out]
        r = subprocess.run(cmd, cwd=str(runner.VERIF), env=env, capture_output=True, text=True, timeout=7200)
        res = json.load(open(out)) if os.path.exists(out) else None
        if res is None:
            print("replay worker died: rc=%s\n%s" % (r.returncode, (r.stdout + r.stderr)[-1500:]))
            return 2
        same = [w for w in res["violations"] if w.get("kind") == witness.get("kind") and w.get("fn") == witness.get("fn")]
        print("replayed module=%s shard=%s/%s seed=%s tier=%s variant=%s: %d violations, %d of kind %r" % (
            rp["module"], rp["shard"], rp["nshards"], rp["seed"], rp["tier"], rp["variant"], len(res["violations"]),
            len(same), witness.get("kind")))
        if same:
            print("   witness: %s" % json.dumps(same[0], default=str)[:1200])
            path = runner.save_replay(prop, same[0])
            print("VIOLATION property=%s replay=%s" % (prop, path))
            return 1
        print("violation did not re-appear on the current tree")
        return 0
    finally:
        shutil.rmtree(scratch, ignore_errors=True)
