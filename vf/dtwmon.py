"""Monitors (postconditions) for the DTW distance family, shared by several workloads."""
import math

from . import oracle
from .oracle import inf

SETTING_KEYS = ("window", "use_pruning", "max_dist", "max_step", "max_length_diff", "penalty", "psi",
                "inner_dist", "use_ndim", "use_c")


def tolist(s):
    """numeric content of a series as nested python lists (never mutates)"""
    if hasattr(s, "tolist"):
        return s.tolist()
    out = []
    for v in s:
        if isinstance(v, (list, tuple)) or hasattr(v, "tolist") or (hasattr(v, "__len__") and not isinstance(v, str)):
            out.append(tolist(v))
        else:
            out.append(float(v))
    return out


def inner_of(kw):
    """oracle Inner for the call's inner_dist/use_ndim (custom objects included)"""
    idist = kw.get("inner_dist", "squared euclidean")
    nd = bool(kw.get("use_ndim", False))
    if isinstance(idist, str):
        return oracle.INNER[(idist, nd)]
    return oracle.Inner(getattr(idist, "__name__", "custom"),
                        lambda a, b: float(idist.inner_dist(a, b)),
                        lambda x: float(idist.result(x)) if x != inf else inf,
                        lambda x: float(idist.inner_val(x)))


def split(a, kw, names=("s1", "s2")):
    """positional/keyword arguments of a monitored call -> (s1, s2, settings dict)"""
    kw = dict(kw)
    vals = []
    for i, n in enumerate(names):
        if i < len(a):
            vals.append(a[i])
        else:
            vals.append(kw.pop(n))
    return vals, kw


def settings_key(kw):
    out = []
    for k in sorted(kw):
        v = kw[k]
        if isinstance(v, list):
            v = tuple(v)
        if not isinstance(v, (int, float, str, tuple, bool, type(None))):
            v = getattr(v, "__name__", type(v).__name__)
        out.append((k, v))
    return tuple(out)


def flat(x):
    return tuple(tuple(v) if isinstance(v, list) else v for v in x)


def ref_for(s1, s2, kw):
    return oracle.ref_distance(s1, s2, window=kw.get("window"), penalty=kw.get("penalty"), psi=kw.get("psi"),
                               max_step=kw.get("max_step"), max_length_diff=kw.get("max_length_diff"),
                               custom=inner_of(kw))


def c01_post(ctx, maxlen=14, label="C01"):
    """dtw.distance (pure Python) == result(min over admissible paths)"""

    def post(a, kw, result, pre):
        (s1, s2), kw = split(a, kw)
        if len(a) > 2:
            kw["only_ub"] = a[2]
        if kw.get("use_c") or kw.get("max_dist") or kw.get("use_pruning") or kw.get("only_ub"):
            ctx.count("c01_skipped_other_property")
            return
        if len(s1) > maxlen or len(s2) > maxlen or len(s1) < 1 or len(s2) < 1:
            ctx.count("c01_skipped_long")
            return
        kw.pop("only_ub", None)
        l1, l2 = tolist(s1), tolist(s2)
        want = ref_for(l1, l2, kw)
        ctx.count("c01_oracle_checks")
        r, c = len(l1), len(l2)
        nontriv = (want != inf and want > 0 and min(r, c) >= 2) or \
                  (want == inf and kw.get("max_length_diff") is None)
        ctx.case(("dtw.distance", flat(l1), flat(l2), settings_key(kw)), nontriv)
        if want == inf:
            ctx.count("c01_infinite_optimum")
        if not oracle.close(float(result), want):
            ctx.violation("value-mismatch", prop=label, fn="dtw.distance", s1=l1, s2=l2,
                          settings=dict(settings_key(kw)), got=float(result), want=want)
        elif len(ctx.samples) < 3 and nontriv and (kw.get("window") or kw.get("psi")):
            ctx.sample(dict(fn="dtw.distance", s1=l1, s2=l2, settings=dict(settings_key(kw)),
                            observed=float(result), reference=want))

    return post


def ulps(a, b):
    """distance in units in the last place between two finite doubles"""
    import struct
    if a == b:
        return 0
    if a != a or b != b or abs(a) == inf or abs(b) == inf:
        return 1 << 62

    def key(x):
        i = struct.unpack("<q", struct.pack("<d", x))[0]
        return i if i >= 0 else -(i & 0x7FFFFFFFFFFFFFFF)
    return abs(key(a) - key(b))


def engines_agree(a, b, ctx=None):
    """C vs Python: both infinite, or equal within a few ulps / 1e-12 relative"""
    a, b = float(a), float(b)
    if a == b:
        return True
    if abs(a) == inf or abs(b) == inf or a != a or b != b:
        return False
    u = ulps(a, b)
    if ctx is not None and u < (1 << 40):
        ctx.maxulp = max(ctx.maxulp, u)
    return u <= 16 or abs(a - b) <= 1e-12 * max(abs(a), abs(b)) or abs(a - b) <= 1e-14
