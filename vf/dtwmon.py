"""Monitors (postconditions) for the DTW distance family, shared by several workloads."""
import math

from . import oracle
from .oracle import inf

SETTING_KEYS = ("window", "use_pruning", "max_dist", "max_step", "max_length_diff", "penalty", "psi",
                "inner_dist", "use_ndim", "use_c")


def tolist(s):
    """numeric content of a series as nested python lists (never mutates)"""
    if hasattr(s, "tolist"):
        return s.tolist()
    out = []
    for v in s:
        if isinstance(v, (list, tuple)) or hasattr(v, "tolist") or (hasattr(v, "__len__") and not isinstance(v, str)):
            out.append(tolist(v))
        else:
            out.append(float(v))
    return out


def inner_of(kw):
    """oracle Inner for the call's inner_dist/use_ndim (custom objects included)"""
    idist = kw.get("inner_dist", "squared euclidean")
    nd = bool(kw.get("use_ndim", False))
    if isinstance(idist, str):
        return oracle.INNER[(idist, nd)]
    return oracle.Inner(getattr(idist, "__name__", "custom"),
                        lambda a, b: float(idist.inner_dist(a, b)),
                        lambda x: float(idist.result(x)) if x != inf else inf,
                        lambda x: float(idist.inner_val(x)))


def split(a, kw, names=("s1", "s2")):
    """positional/keyword arguments of a monitored call -> (s1, s2, settings dict)"""
    kw = dict(kw)
    vals = []
    for i, n in enumerate(names):
        if i < len(a):
            vals.append(a[i])
        else:
            vals.append(kw.pop(n))
    return vals, kw


def settings_key(kw):
    out = []
    for k in sorted(kw):
        v = kw[k]
        if hasattr(v, "item") and not hasattr(v, "__len__"):
            v = v.item()                      # NumPy scalar -> Python number
        if isinstance(v, list):
            v = tuple(v)
        if isinstance(v, tuple):
            v = tuple((x.item() if hasattr(x, "item") else x) for x in v)
        if not isinstance(v, (int, float, str, tuple, bool, type(None))):
            v = getattr(v, "__name__", type(v).__name__)
        out.append((k, v))
    return tuple(out)


def flat(x):
    return tuple(tuple(v) if isinstance(v, list) else v for v in x)


def ref_for(s1, s2, kw):
    return oracle.ref_distance(s1, s2, window=kw.get("window"), penalty=kw.get("penalty"), psi=kw.get("psi"),
                               max_step=kw.get("max_step"), max_length_diff=kw.get("max_length_diff"),
                               custom=inner_of(kw))


def c01_post(ctx, maxlen=14, label="C01"):
    """dtw.distance (pure Python) == result(min over admissible paths)"""

    def post(a, kw, result, pre):
        (s1, s2), kw = split(a, kw)
        if len(a) > 2:
            kw["only_ub"] = a[2]
        if kw.get("use_c") or kw.get("max_dist") or kw.get("use_pruning") or kw.get("only_ub"):
            ctx.count("c01_skipped_other_property")
            return
        if len(s1) > maxlen or len(s2) > maxlen or len(s1) < 1 or len(s2) < 1:
            ctx.count("c01_skipped_long")
            return
        kw.pop("only_ub", None)
        l1, l2 = tolist(s1), tolist(s2)
        want = ref_for(l1, l2, kw)
        ctx.count("c01_oracle_checks")
        r, c = len(l1), len(l2)
        nontriv = (want != inf and want > 0 and min(r, c) >= 2) or \
                  (want == inf and kw.get("max_length_diff") is None)
        ctx.case(("dtw.distance", flat(l1), flat(l2), settings_key(kw)), nontriv)
        if want == inf:
            ctx.count("c01_infinite_optimum")
        if not oracle.close(float(result), want):
            ctx.violation("value-mismatch", prop=label, fn="dtw.distance", s1=l1, s2=l2,
                          settings=dict(settings_key(kw)), got=float(result), want=want)
        elif len(ctx.samples) < 3 and nontriv and (kw.get("window") or kw.get("psi")):
            ctx.sample(dict(fn="dtw.distance", s1=l1, s2=l2, settings=dict(settings_key(kw)),
                            observed=float(result), reference=want))

    return post


def ulps(a, b):
    """distance in units in the last place between two finite doubles"""
    import struct
    if a == b:
        return 0
    if a != a or b != b or abs(a) == inf or abs(b) == inf:
        return 1 << 62

    def key(x):
        i = struct.unpack("<q", struct.pack("<d", x))[0]
        return i if i >= 0 else -(i & 0x7FFFFFFFFFFFFFFF)
    return abs(key(a) - key(b))


def engines_agree(a, b, ctx=None):
    """C vs Python: both infinite, or equal within a few ulps / 1e-12 relative"""
    a, b = float(a), float(b)
    if a == b:
        return True
    if abs(a) == inf or abs(b) == inf or a != a or b != b:
        return False
    u = ulps(a, b)
    if ctx is not None and u < (1 << 40):
        ctx.maxulp = max(ctx.maxulp, u)
    return u <= 16 or abs(a - b) <= 1e-12 * max(abs(a), abs(b)) or abs(a - b) <= 1e-14


# ------------------------------------------------------------------ C02: C == Python
def c_to_py_kwargs(kw):
    """kwargs of a dtw_cc.* call (C encoding: 0 == off) -> kwargs for the Python engine"""
    out = {}
    for k, v in kw.items():
        if k in ("window", "max_dist", "max_step", "max_length_diff", "penalty"):
            out[k] = None if (v is None or v == 0) else v
        elif k == "psi":
            out[k] = None if v is None else (tuple(v) if isinstance(v, (list, tuple)) else v)
        elif k == "inner_dist":
            out[k] = {0: "squared euclidean", 1: "euclidean"}.get(v, v)
        elif k in ("use_pruning", "only_ub"):
            out[k] = bool(v)
        elif k in ("use_c", "use_ndim", "compact", "parallel", "use_mp", "show_progress", "block", "only_triu"):
            pass
        else:
            out[k] = v
    return out


def near_threshold(d, m, rel=1e-6):
    return m is not None and m != 0 and d != inf and abs(d - m) <= rel * max(abs(d), abs(m))


def py_reference(dtw, s1, s2, pykw, ndim):
    """Python-engine value for the same call; None when the call is outside the comparable domain"""
    from . import monitors
    f = monitors.orig(dtw, "distance")
    kw = dict(pykw)
    only_ub = kw.pop("only_ub", False)
    if ndim:
        kw["use_ndim"] = True
    kw["use_c"] = False
    if kw.get("use_pruning") or kw.get("max_dist"):
        kw0 = dict(kw)
        kw0.pop("use_pruning", None)
        kw0.pop("max_dist", None)
        d0 = f(s1, s2, **kw0)
        if near_threshold(d0, kw.get("max_dist")):
            return None
    return f(s1, s2, only_ub=only_ub, **kw)


def c02_post(ctx, dtw, fname, ndim, cstyle, label="C02"):
    """differential postcondition for a single-pair C entry point"""
    import numpy as np

    def post(a, kw, result, pre):
        (s1, s2), kw = split(a, kw)
        if fname.endswith("assinglearray"):
            nd = a[2] if len(a) > 2 else kw.pop("ndim")
            s1 = np.asarray(s1).reshape(-1, nd)
            s2 = np.asarray(s2).reshape(-1, nd)
        pykw = c_to_py_kwargs(kw) if cstyle else {k: v for k, v in kw.items() if k not in ("use_c",)}
        nd = ndim
        if not cstyle:
            nd = bool(pykw.pop("use_ndim", False)) or ndim
        try:
            want = py_reference(dtw, s1, s2, pykw, nd)
        except Exception as e:
            ctx.violation("python-engine-exception", prop=label, fn=fname, s1=tolist(s1), s2=tolist(s2),
                          settings=dict(settings_key(pykw)), error=repr(e)[:300], c=float(result))
            return
        if want is None:
            ctx.count("c02_skipped_near_threshold")
            return
        ctx.count("c02_differential_checks")
        l1, l2 = tolist(s1), tolist(s2)
        nontriv = want != 0 and min(len(l1), len(l2)) >= 2
        ctx.case((fname, flat(l1), flat(l2), settings_key(pykw)), nontriv)
        if want == inf:
            ctx.count("c02_both_should_be_inf")
        if not engines_agree(result, want, ctx):
            extra = {}
            if not cstyle and pykw.get("max_length_diff") == 0 and pykw.get("max_length_diff") is not None:
                # model of known finding KF-C02-1: the C settings cannot express "limit 0" (0 encodes "off")
                try:
                    m_ = py_reference(dtw, s1, s2, dict(pykw, max_length_diff=None), nd)
                    if m_ is None:
                        # the threshold sits within rounding of the distance: either outcome of the cut is legitimate
                        k_ = {k__: v__ for k__, v__ in pykw.items() if k__ not in ("max_dist", "use_pruning", "max_length_diff")}
                        m_ = py_reference(dtw, s1, s2, k_, nd)
                        extra["threshold_within_rounding_of_the_distance"] = True
                    extra["python_with_the_limit_off"] = float(m_)
                except Exception:
                    pass
            ctx.violation("engine-mismatch", prop=label, fn=fname, s1=l1, s2=l2, settings=dict(settings_key(pykw)),
                          c=float(result), python=float(want), **extra)
        elif len(ctx.samples) < 3 and nontriv and len(pykw) >= 2:
            ctx.sample(dict(fn=fname, s1=l1, s2=l2, settings=dict(settings_key(pykw)), c=float(result),
                            python=float(want)))

    return post


# ------------------------------------------------- C03: early abandoning changes nothing
def valid_ub_domain(kw, r, c):
    return (not kw.get("max_step")) and (not kw.get("penalty") or r == c)


def c03_distance_post(ctx, f_orig, fname, cstyle=False, label="C03"):
    """relational postcondition: f(max_dist=m / use_pruning) vs the same f without them"""

    def post(a, kw, result, pre):
        (s1, s2), kw = split(a, kw)
        if len(a) > 2:
            kw["only_ub"] = a[2]
        m = kw.get("max_dist") or None
        pr = bool(kw.get("use_pruning"))
        if (m is None and not pr) or kw.get("only_ub"):
            return
        r, c = len(s1), len(s2)
        outside = pr and not valid_ub_domain(kw, r, c)
        if outside:
            # penalty with unequal lengths, or max_step: the Euclidean "bound" is not the cost of an admissible path.
            # Still judged (the property quantifies over these settings); see known finding KF-C03-1.
            ctx.count("c03_pruning_with_penalty_or_max_step")
        kw0 = {k: v for k, v in kw.items() if k not in ("max_dist", "use_pruning", "only_ub")}
        d0 = float(f_orig(s1, s2, **kw0))
        res = float(result)
        ctx.count("c03_relational_checks")
        l1, l2 = tolist(s1), tolist(s2)
        key = (fname, flat(l1), flat(l2), settings_key(kw))
        verdict = None
        if m is not None and near_threshold(d0, m, 1e-6):
            ctx.count("c03_skipped_near_threshold")
            return
        if m is not None and d0 > m:
            ctx.count("c03_above_threshold")
            if res != inf:
                verdict = "finite-above-threshold"
        else:
            ctx.count("c03_below_threshold")
            if not engines_agree(res, d0):
                verdict = "changed-below-threshold" if res != inf else "lost-below-threshold"
        ctx.case(key, d0 != 0 and d0 != inf and min(r, c) >= 2)
        if pr and d0 != inf:
            ctx.count("c03_pruning_checks")
        if verdict:
            extra = {}
            if outside:
                try:
                    from dtaidistance import ed as _ed
                    extra["euclidean_bound"] = float(_ed.distance(s1, s2, inner_dist=kw.get("inner_dist", "squared euclidean"),
                                                                  use_ndim=bool(kw.get("use_ndim", False))))
                except Exception:
                    pass
            ctx.violation(verdict, prop=label, fn=fname, s1=l1, s2=l2, settings=dict(settings_key(kw)),
                          with_bound=res, without=d0, pruning_bound_is_not_a_path_cost=bool(outside), **extra)
        elif len(ctx.samples) < 3 and d0 not in (0, inf):
            ctx.sample(dict(fn=fname, s1=l1, s2=l2, settings=dict(settings_key(kw)), with_bound=res, without=d0))

    return post
