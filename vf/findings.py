"""Known findings: committed list, read-only at run time.  A witness is attributed to a
known finding only when the named classifier (a small model of the *defective* behaviour
or of the exact defective call site) recognises it."""
import json
from pathlib import Path

FILE = Path(__file__).resolve().parent.parent / "known_findings.json"

CLASSIFIERS = {}


def classifier(name):
    def deco(f):
        CLASSIFIERS[name] = f
        return f
    return deco


def load():
    if not FILE.exists():
        return {"known": [], "fixed": []}
    return json.loads(FILE.read_text())


def classify(w, known):
    """return the known-finding entry that explains witness w, else None"""
    for k in known:
        if k.get("property") != w.get("prop"):
            continue
        f = CLASSIFIERS.get(k.get("classifier"))
        if f is None:
            continue
        try:
            if f(w):
                return k
        except Exception:
            pass
    return None


# ---------------------------------------------------------------- classifiers
# (each is keyed by mechanism: input class + bug-compatible output, never by seed/hash)
from . import kf_models  # noqa: E402,F401  (registers classifiers)
