"""C12 — DBA update averages optimally aligned points and never worsens the fit."""
from vf import dtwmon, gen, monitors, oracle
from vf.oracle import inf
from vf.runner import Plan

RULE = ("cases = one barycenter-averaging step (dtw_barycenter.dba with use_c False/True, dtw_cc.dba, "
        "dtw_cc.dba_ndim) or a dba_loop run, on 2..10 series (equal/unequal length, ndim 1..3, list or matrix "
        "container, masks incl. > 8 series so the bit-packed mask crosses a byte) with window/penalty settings. "
        "Postconditions: when the reference DP counts exactly one optimal path per selected series, every position "
        "equals the mean of the points aligned to it by that path (exact definition) and C equals Python; always: "
        "values stay inside the per-dimension range of the selected series, identical series are a fixed point, "
        "replacing the unselected series by noise changes nothing, the sum of squared DTW distances to the selected "
        "series does not increase (squared-euclidean inner distance), dba_loop performs <= max_it update steps and "
        "never modifies its inputs. non-trivial = >= 2 selected series and a changed average.")
ASSUME = ["psi-relaxation is not part of this property's quantifier and is not generated (see KF-C05-1)",
          "objective monotonicity is only claimed for the squared-euclidean inner distance",
          "exact-definition and C==Python checks only where every optimal path is unique (counted by the reference DP)"]
PLAN = Plan("C12", RULE, ASSUME,
            workers={"quick": [("plain", 16, "C12")], "thorough": [("plain", 13, "C12"), ("asan", 3, "C12")]},
            deciding=("dba_steps_checked", "exact_definition_checks", "engine_comparisons", "mask_independence_checks",
                      "objective_checks", "loop_checks"),
            crash_is_violation=True)


def expected_update(ss, c, sel, kw, nd):
    """(new average by the definition, all_unique) using the reference DP"""
    inn = oracle.INNER[(kw.get("inner_dist", "squared euclidean"), bool(nd))]
    pen = inn.ival(kw["penalty"]) if kw.get("penalty") else 0.0
    t = len(c)
    acc = [[] for _ in range(t)]
    unique = True
    for k, s in enumerate(ss):
        if not sel[k]:
            continue
        n = oracle.count_optimal_paths(c, s, kw.get("window"), pen, (0, 0, 0, 0), inf, inn.dist)
        if n != 1:
            unique = False
        p = oracle.ref_best_path(c, s, kw.get("window"), pen, (0, 0, 0, 0), inf, inn.dist)
        if p is None:
            return None, False
        for i, j in p:
            acc[i].append(s[j])
    out = []
    for vals in acc:
        if not vals:
            return None, False
        if nd:
            out.append([sum(v[d] for v in vals) / len(vals) for d in range(nd)])
        else:
            out.append(sum(vals) / len(vals))
    return out, unique


def flat2(x):
    return [list(v) if isinstance(v, (list, tuple)) else v for v in x]


def close_seq(a, b, nd, tol=1e-9):
    a, b = dtwmon.tolist(a), dtwmon.tolist(b)
    if len(a) != len(b):
        return False
    for x, y in zip(a, b):
        xs, ys = (x, y) if nd else ([x], [y])
        for u, v in zip(xs, ys):
            if not oracle.close(float(u), float(v), tol, 1e-12):
                return False
    return True


def run(ctx):
    import numpy as np
    from dtaidistance import dtw, dtw_ndim, dtw_barycenter, dtw_cc
    monitors.guard_backtracking(ctx)      # bounded progress for every back-tracking call, wherever it is made
    rng = ctx.rng
    N = ctx.scale(1500, 18000)
    for it in range(N):
        n = rng.choice([2, 3, 4, 5, 9, 10])
        if it % 30 == 5:
            n = rng.choice([16, 17, 24, 33, 64, 65, 70])      # scale-up slice: masks of more than 2 / 4 / 8 bytes
            ctx.count("large_collections")
        nd = rng.choice([0, 0, 2, 2, 3])   # ndim 1 = univariate series
        equal = rng.random() < 0.5
        n0 = rng.randint(2, 7)
        lens = [n0 if equal else rng.randint(1, 7) for _ in range(n)]
        kind = rng.choice(["dyadic", "gauss", "gauss", "alpha"])
        ss = [gen.series_nd(rng, m, nd, kind) if nd else gen.series(rng, m, kind) for m in lens]
        t = rng.choice([n0, rng.randint(1, 7)])
        c = gen.series_nd(rng, t, nd, kind) if nd else gen.series(rng, t, kind)
        if nd and rng.random() < 0.12:
            # one channel with a large common offset (timestamps, map coordinates): differences stay of order one
            off_ = rng.choice([1.7e9, 3.0e8, 5.0e6])
            ss = [[[p_[0] + off_] + list(p_[1:]) for p_ in s_] for s_ in ss]
            c = [[p_[0] + off_] + list(p_[1:]) for p_ in c]
            ctx.count("collections_with_large_offset")
        sel = [rng.random() < 0.7 for _ in range(n)]
        if not any(sel):
            sel[rng.randrange(n)] = True
        if rng.random() < 0.3:
            sel = [True] * n
        if n >= 16 and rng.random() < 0.6:
            # structured masks of a large collection: a few clusters' worth of selected series, whole bytes unselected
            sel = [False] * n
            lo_ = rng.choice([0, 8, 8, 16]) if n > 16 else 8
            for i_ in range(lo_, n):
                sel[i_] = rng.random() < rng.choice([0.15, 0.5, 1.0])
            if not any(sel):
                sel[n - 1] = True
            ctx.count("masks_with_unselected_bytes")
        kw = {}
        if rng.random() < 0.5:
            kw["window"] = rng.randint(1, 8)
        if rng.random() < 0.4:
            kw["penalty"] = rng.choice([0.1, 0.5, 1.0])
        if rng.random() < 0.25:
            kw["inner_dist"] = "euclidean"
        as_matrix = equal and rng.random() < 0.5
        data = np.array(ss) if as_matrix else [np.array(s) for s in ss]
        mask = np.array(sel, dtype=bool)
        c_np = np.array(c, dtype=float)
        wit = dict(series=ss, c=c, mask=sel, settings=dict(dtwmon.settings_key(kw)), ndim=nd, container="matrix" if as_matrix else "list")
        ctx.current("dba %r" % (wit,))
        snapshot = (c_np.copy(), [np.array(s) for s in ss])
        res = {}
        # integer-typed initial average (Python engine): the result must still be the fractional mean
        int_c = (not nd) and kind in ("alpha", "dyadic") and rng.random() < 0.3
        if int_c:
            c = [float(int(round(v))) for v in c]
            c_np = np.array(c, dtype=float)
            snapshot = (c_np.copy(), [np.array(s) for s in ss])
            wit["c"] = c
            wit["c_dtype"] = "int64 for the Python engine"
        for use_c in (False, True):
            try:
                if use_c:
                    cc = c_np.copy()
                    packed = np.packbits(mask, bitorder="little")
                    ckw = dtw.DTWSettings(**kw).c_kwargs()
                    if nd:
                        dtw_cc.dba_ndim(data, cc, mask=packed, nb_prob_samples=0, ndim=nd, **ckw)
                    else:
                        dtw_cc.dba(data, cc, mask=packed, nb_prob_samples=0, **ckw)
                    res[use_c] = cc
                else:
                    c_in = np.array([int(v) for v in c], dtype=np.int64) if int_c else c_np
                    res[use_c] = np.asarray(dtw_barycenter.dba(data, c_in, mask=mask, use_c=False, **kw))
            except Exception as e:
                ctx.violation("exception", fn="dba", use_c=use_c, error=repr(e)[:300], **wit)
        # inputs untouched
        if not np.array_equal(c_np, snapshot[0]) or any(not np.array_equal(np.array(a), b) for a, b in zip(ss, snapshot[1])):
            ctx.violation("inputs-modified", fn="dba", **wit)
        exp, unique = expected_update(ss, c, sel, kw, nd)
        ctx.count("dba_steps_checked")
        for use_c, avg in res.items():
            fn = "dtw_cc.dba" if use_c else "dtw_barycenter.dba"
            ctx.case((fn, nd, repr(ss), repr(c), tuple(sel), dtwmon.settings_key(kw)), sum(sel) >= 2)
            if len(avg) != t:
                ctx.violation("length", fn=fn, got=len(avg), want=t, **wit)
                continue
            # range law
            chosen = [s for s, m in zip(ss, sel) if m]
            for d in range(max(nd, 1)):
                vals = [(p[d] if nd else p) for s in chosen for p in s]
                lo, hi = min(vals), max(vals)
                col = [float(a[d]) if nd else float(a) for a in avg]
                if min(col) < lo - 1e-9 or max(col) > hi + 1e-9:
                    ctx.violation("outside-range-of-selected-series", fn=fn, result=dtwmon.tolist(avg), lo=lo, hi=hi, **wit)
                    break
            if exp is not None and unique:
                ctx.count("exact_definition_checks")
                if not close_seq(avg, exp, nd):
                    ctx.violation("not-the-mean-of-aligned-points", fn=fn, result=dtwmon.tolist(avg), expected=exp, **wit)
        if len(res) == 2 and exp is not None and unique:
            ctx.count("engine_comparisons")
            if not close_seq(res[True], res[False], nd, 1e-10):
                ctx.violation("c-differs-from-python", c=dtwmon.tolist(res[True]), python=dtwmon.tolist(res[False]), **wit)
        # unselected series have no influence
        if not all(sel):
            noisy = [s if m else (gen.series_nd(rng, len(s), nd, "big") if nd else gen.series(rng, len(s), "big"))
                     for s, m in zip(ss, sel)]
            data2 = np.array(noisy) if as_matrix else [np.array(s) for s in noisy]
            for use_c in res:
                try:
                    if use_c:
                        cc = c_np.copy()
                        packed = np.packbits(mask, bitorder="little")
                        ckw = dtw.DTWSettings(**kw).c_kwargs()
                        if nd:
                            dtw_cc.dba_ndim(data2, cc, mask=packed, nb_prob_samples=0, ndim=nd, **ckw)
                        else:
                            dtw_cc.dba(data2, cc, mask=packed, nb_prob_samples=0, **ckw)
                        r2 = cc
                    else:
                        r2 = np.asarray(dtw_barycenter.dba(data2, c_np, mask=mask, use_c=False, **kw))
                    ctx.count("mask_independence_checks")
                    if not np.array_equal(np.asarray(r2), np.asarray(res[use_c])):
                        ctx.violation("unselected-series-influence-result", use_c=use_c, result=dtwmon.tolist(res[use_c]),
                                      with_noise=dtwmon.tolist(r2), **wit)
                except Exception as e:
                    ctx.violation("exception", fn="dba(noise)", use_c=use_c, error=repr(e)[:300], **wit)
            # the default initial average (c=None: "first selected series") is part of "all initial averages":
            # the whole loop, started without an explicit average, must not look at unselected series either
            for use_c in res:
                try:
                    ctx.current("dba_loop c=None noise %r" % (wit,))
                    import random as _pyr
                    nis = rng.choice([None, None, 1, 2, 3])      # "good" initial average picked among sampled selected series
                    rs_ = rng.randrange(10 ** 6)
                    _pyr.seed(rs_)
                    o1 = np.asarray(dtw_barycenter.dba_loop(data, c=None, max_it=2, thr=None, mask=mask.copy(), use_c=use_c,
                                                            nb_initial_samples=nis, **kw))
                    _pyr.seed(rs_)
                    o2 = np.asarray(dtw_barycenter.dba_loop(data2, c=None, max_it=2, thr=None, mask=mask.copy(), use_c=use_c,
                                                            nb_initial_samples=nis, **kw))
                    ctx.count("default_average_nb_initial_samples:%r" % (nis,))
                    ctx.count("mask_independence_checks_default_average")
                    if o1.shape != o2.shape or not np.array_equal(o1, o2):
                        ctx.violation("unselected-series-influence-result", fn="dba_loop(c=None)", use_c=use_c, nb_initial_samples=nis,
                                      random_seed=rs_, result=dtwmon.tolist(o1), with_noise=dtwmon.tolist(o2), **wit)
                    if not use_c:
                        p1 = np.asarray(dtw_barycenter.dba(data, None, mask=mask.copy(), use_c=False, **kw))
                        p2 = np.asarray(dtw_barycenter.dba(data2, None, mask=mask.copy(), use_c=False, **kw))
                        if p1.shape != p2.shape or not np.array_equal(p1, p2):
                            ctx.violation("unselected-series-influence-result", fn="dba(c=None)", use_c=use_c,
                                          result=dtwmon.tolist(p1), with_noise=dtwmon.tolist(p2), **wit)
                except Exception as e:
                    ctx.violation("exception", fn="dba_loop(c=None, noise)", use_c=use_c, error=repr(e)[:300], **wit)
        # objective does not increase (squared euclidean)
        if kw.get("inner_dist", "squared euclidean") == "squared euclidean":
            dist = dtw_ndim.distance if nd else dtw.distance
            chosen = [np.array(s) for s, m in zip(ss, sel) if m]
            before = sum(float(dist(c_np, s, **kw)) ** 2 for s in chosen)
            for use_c, avg in res.items():
                after = sum(float(dist(np.asarray(avg, dtype=float), s, **kw)) ** 2 for s in chosen)
                ctx.count("objective_checks")
                if before != inf and after > before * (1 + 1e-9) + 1e-9:
                    ctx.violation("objective-increased", use_c=use_c, before=before, after=after,
                                  result=dtwmon.tolist(avg), **wit)
        # identical series are a fixed point
        if it % 3 == 0:
            same = [np.array(ss[0])] * rng.randint(2, 4)
            for use_c in (False, True):
                try:
                    r3 = dtw_barycenter.dba_loop(same, c=np.array(ss[0], dtype=float), max_it=2, thr=None, use_c=use_c, **kw)
                    ctx.count("fixed_point_checks")
                    if not close_seq(r3, ss[0], nd, 1e-12):
                        ctx.violation("identical-series-not-a-fixed-point", use_c=use_c, series=ss[0],
                                      result=dtwmon.tolist(r3), settings=dict(dtwmon.settings_key(kw)))
                except Exception as e:
                    ctx.violation("exception", fn="dba_loop(identical)", use_c=use_c, error=repr(e)[:300], **wit)
        # layout of the initial average must not matter (dba_loop copies it before the in-place C update)
        if nd and it % 2 == 1:
            for use_c in (False, True):
                try:
                    cC = np.ascontiguousarray(c_np)
                    cF = np.asfortranarray(c_np)
                    cT = np.ascontiguousarray(c_np.T).T
                    outs = [np.asarray(dtw_barycenter.dba_loop(data, c=cc_, max_it=1, thr=None, mask=mask, use_c=use_c, **kw))
                            for cc_ in (cC, cF, cT)]
                    ctx.count("average_layout_checks")
                    if not (np.array_equal(outs[0], outs[1]) and np.array_equal(outs[0], outs[2])):
                        ctx.violation("result-depends-on-layout-of-initial-average", use_c=use_c,
                                      c_order=outs[0].tolist(), f_order=outs[1].tolist(), t_view=outs[2].tolist(), **wit)
                    if not np.array_equal(cF, c_np) or not np.array_equal(cT, c_np):
                        ctx.violation("inputs-modified", fn="dba_loop", what="initial average", **wit)
                except Exception as e:
                    ctx.violation("exception", fn="dba_loop(layout)", use_c=use_c, error=repr(e)[:300], **wit)
        # dba_loop: at most max_it update steps
        if it % 2 == 0:
            for use_c in (False, True):
                steps = {"n": 0}
                name = "dba" if not use_c else ("dba_ndim" if nd else "dba")
                mod = dtw_barycenter if not use_c else dtw_cc
                orig = getattr(mod, name)

                def counting(*a, __o=orig, **k):
                    steps["n"] += 1
                    return __o(*a, **k)
                setattr(mod, name, counting)
                try:
                    max_it = rng.randint(1, 4)
                    out = dtw_barycenter.dba_loop(data, c=c_np.copy(), max_it=max_it, thr=rng.choice([None, 1e-3]),
                                                  mask=mask, use_c=use_c, **kw)
                    ctx.count("loop_checks")
                    if steps["n"] > max_it or steps["n"] < 1:
                        ctx.violation("loop-step-count", use_c=use_c, steps=steps["n"], max_it=max_it, **wit)
                    if len(out) != t:
                        ctx.violation("length", fn="dba_loop", got=len(out), want=t, **wit)
                except Exception as e:
                    ctx.violation("exception", fn="dba_loop", use_c=use_c, error=repr(e)[:300], **wit)
                finally:
                    setattr(mod, name, orig)
        if len(ctx.samples) < 2 and exp is not None and unique and sum(sel) >= 2 and False in res:
            ctx.sample(dict(series=ss, c=c, mask=sel, settings=kw, result=dtwmon.tolist(res[False]), expected=exp))
