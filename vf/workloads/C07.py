"""C07 — parallel distance-matrix computation is schedule-independent."""
import json
import os
import random
import re
import subprocess
import time
from pathlib import Path

from vf import build, dtwmon, gen, monitors, native_build
from vf.oracle import inf
from vf.runner import Plan

RULE = ("cases = parallel regions. Native: each configuration (routine in {ptrs, ndim_ptrs, matrix, ndim_matrix, "
        "matrices, ndim_matrices} x n series x block x thread count 1..64 x schedule {as written (guided), static, "
        "dynamic, guided with chunk 1/2/7 via a schedule(runtime) rebuild} x injected delays x DTW settings) runs the "
        "repository's *_parallel routine in a ThreadSanitizer build whose libgomp fork/join is modelled by wrapping "
        "GOMP_parallel, with a linker-wrapped call-history log of every kernel call (thread, row, column); oracles: "
        "no TSan report, every output slot written and bit-identical to the serial routine, every selected pair "
        "computed exactly once. The same configurations also run in an ASan+UBSan OpenMP build (exact-size output "
        "buffers). Python level: dtw.distance_matrix(parallel=True) via OpenMP (thread counts set through libgomp), "
        "via multiprocessing with the C and the Python kernel for several pool sizes, each compared element-wise "
        "with parallel=False. non-trivial = region with >= 2 threads that actually ran kernel calls on >= 2 threads.")
ASSUME = ["ThreadSanitizer only sees interleavings that happened; x86-TSO memory model", "libgomp fork/join modelled "
          "by release/acquire around GOMP_parallel (verified: GOMP_parallel is the only fork entry point used)",
          "thread counts and schedules are sampled, not enumerated"]


def gen_configs(rng, tier, rt):
    """yield config tuples (see omp_drive.c)"""
    cfgs = []
    cid = 0
    nreg = (1400 if tier == "quick" else 60000)
    if rt:
        nreg = nreg // 2
    threads_pool = [1, 2, 3, 4, 5, 7, 8, 9, 16, 17, 32, 64]
    while len(cfgs) < nreg:
        routine = rng.randrange(6)
        n = rng.choice([1, 2, 3, 4, 5, 6, 8, 12, 20, 40]) if rng.random() < 0.7 else rng.randint(1, 40)
        ndim = rng.randint(1, 3)
        equal = rng.random() < 0.4
        L = rng.choice([3, 6, 12])
        if rng.random() < 0.45 or n < 2:
            rb = re = cb = ce = 0
            triu = 1
        else:
            rb = rng.randrange(n); re = rng.randint(rb + 1, n)
            cb = rng.randrange(n); ce = rng.randint(cb + 1, n)
            triu = 1 if rng.random() < 0.6 else 0
        threads = rng.choice(threads_pool)
        if rt:
            sched = rng.choice([1, 2, 3]); chunk = rng.choice([1, 2, 7])
        else:
            sched = 0; chunk = 0
        delay = rng.choice([0, 1, 1, 2])
        window = rng.choice([0, 0, 1, 2, 5])
        psi = rng.choice([0, 0, 1, 2])
        penalty = rng.choice([0, 0, 0.5])
        maxdist = rng.choice([0, 0, 2.0])
        inner = rng.choice([0, 0, 1])
        pruning = 1 if (rng.random() < 0.15 and not penalty) else 0
        maxstep = rng.choice([0, 0, 0, 1.5, 3.0])
        mld = rng.choice([0, 0, 1, 2, 4])          # a per-pair filter: rows of different lengths run concurrently
        reps = 1 if tier == "quick" else rng.choice([1, 1, 3])
        for rep in range(reps):
            cid += 1
            cfgs.append((cid, routine, n, ndim, int(equal), L, rb, re, cb, ce, triu, threads, sched, chunk, delay,
                         rng.randrange(1 << 30), window, psi, penalty, maxdist, inner, pruning, rng.randrange(1 << 30),
                         maxstep, mld))
    return cfgs


TSAN_RE = re.compile(r"WARNING: ThreadSanitizer: ([^\n(]+)")


def tsan_reports(text):
    out = []
    for m in TSAN_RE.finditer(text):
        blk = text[m.start(): m.start() + 3000]
        frames = re.findall(r"#\d+ (\w+) [^\n]*?(dd_\w+\.c|omp_drive\.c):(\d+)", blk)
        fns = tuple(sorted({f[0] for f in frames[:6]}))
        out.append((m.group(1).strip(), fns, blk[:1500]))
    return out


def native(tier, seed, scratch):
    tree = build.ensure("plain")
    out = Path(scratch) / "native"
    cov = dict(evaluations=0, nontrivial=[], samples=[], counters={})
    viol, inconc = [], []
    flavours = ["tsan", "tsan-rt", "asan"]
    exes = {}
    for fl in flavours:
        exe, note = native_build.omp_harness(tree, out, fl)
        if exe is None:
            cov["counters"]["skipped:" + fl] = 1
            cov.setdefault("notes_native", []).append(note)
            continue
        exes[fl] = exe
        if note:
            cov.setdefault("notes_native", []).append(note)
    ncpu = min(16, os.cpu_count() or 4)
    jobs = []
    for fl, exe in exes.items():
        rng = random.Random("%s/%s/%s" % (seed, tier, fl))
        cfgs = gen_configs(rng, tier, fl.endswith("-rt"))
        if fl == "asan":
            cfgs = cfgs[: max(200, len(cfgs) // 4)]
        k = max(1, ncpu // 2) if tier == "quick" else ncpu
        for sh in range(k):
            part = cfgs[sh::k]
            if part:
                jobs.append((fl, exe, part))
    procs = []
    env = dict(os.environ)
    env["TSAN_OPTIONS"] = "halt_on_error=0:report_signal_unsafe=0:history_size=4:second_deadlock_stack=1"
    env["ASAN_OPTIONS"] = "detect_leaks=0:halt_on_error=0"
    env["UBSAN_OPTIONS"] = "print_stacktrace=1"
    env["OMP_WAIT_POLICY"] = "passive"
    env.pop("OMP_NUM_THREADS", None)
    running = []
    results = []
    pending = list(jobs)
    tmo = 1500 if tier == "quick" else 7000
    t_start = time.time()
    while pending or running:
        while pending and len(running) < ncpu:
            fl, exe, part = pending.pop(0)
            inp = "".join(" ".join(str(x) for x in c) + "\n" for c in part)
            # files, not pipes: a pipe that nobody drains while we wait deadlocks the harness on large shards
            jn = len(jobs) - len(pending)
            base = out / ("job-%s-%d" % (fl, jn))
            base.with_suffix(".in").write_text(inp)
            fi = open(base.with_suffix(".in"))
            fo = open(base.with_suffix(".out"), "w+")
            fe = open(base.with_suffix(".err"), "w+")
            p = subprocess.Popen([str(exe)], stdin=fi, stdout=fo, stderr=fe, text=True, env=env)
            fi.close()
            running.append((p, fl, part, (fo, fe)))
        still = []
        for item in running:
            p, fl, part, inp = item
            if p.poll() is None:
                still.append(item)
                continue
            fo, fe = inp
            fo.seek(0)
            fe.seek(0)
            results.append((fl, part, p.returncode, fo.read(), fe.read()))
            fo.close()
            fe.close()
        running = still
        if running and time.time() - t_start > tmo:
            # generous wall-clock watchdog: firing is inconclusive, never a violation
            for p, fl, part, (fo, fe) in running:
                p.kill()
                p.wait()
                fo.close()
                fe.close()
                inconc.append("native %s harness shard exceeded the %ds watchdog" % (fl, tmo))
            running = []
            pending = []
        if running:
            try:
                running[0][0].wait(timeout=0.2)
            except subprocess.TimeoutExpired:
                pass
    sigs = set()
    tids_hist = {}
    seen_reports = {}
    for fl, part, rc, so, se in results:
        byid = {c[0]: c for c in part}
        lines = [json.loads(l) for l in so.splitlines() if l.startswith("{")]
        cov["counters"]["regions:" + fl] = cov["counters"].get("regions:" + fl, 0) + len(lines)
        if rc != 0 or len(lines) != len(part):
            if rc < 0 or "Sanitizer" in se:
                viol.append(dict(prop="C07", kind="native-crash", flavour=fl, rc=rc, stderr=se[-1500:],
                                 config=list(part[len(lines)]) if len(lines) < len(part) else None))
            else:
                inconc.append("native harness %s rc=%s produced %d/%d results: %s" % (fl, rc, len(lines), len(part), se[-400:]))
        for rec in lines:
            cfg = byid.get(rec["id"])
            cov["evaluations"] += 1
            cov["counters"]["kernel_calls_logged"] = cov["counters"].get("kernel_calls_logged", 0) + rec["logged"]
            if rec["tids"] >= 2:
                cov["nontrivial"].append("%s/%d" % (fl, rec["id"]))
            sigs.add((rec["routine"], rec["threads"], rec["assign_sig"]))
            tids_hist[rec["tids"]] = tids_hist.get(rec["tids"], 0) + 1
            cov["counters"]["max_overlap_seen"] = max(cov["counters"].get("max_overlap_seen", 0), rec["max_overlap"])
            bad = []
            if rec["mismatch"] or rec["unwritten"]:
                bad.append("output-differs-from-serial")
            if rec["ret_serial"] != rec["ret_parallel"] or rec["ret_serial"] != rec["len"]:
                bad.append("returned-length")
            if rec["dup"] or rec["missing"] or rec["foreign"] or rec["logged"] != rec["expected"]:
                bad.append("pair-not-computed-exactly-once")
            if rec["rows_multi_owner"]:
                bad.append("row-shared-between-threads")
            for b in bad:
                viol.append(dict(prop="C07", kind=b, flavour=fl, record=rec, config=list(cfg) if cfg else None))
            if len(cov["samples"]) < 3 and rec["tids"] >= 3:
                cov["samples"].append(dict(flavour=fl, config=list(cfg) if cfg else None, observed=rec))
        if fl.startswith("tsan"):
            for kind, fns, blk in tsan_reports(se):
                cov["counters"]["tsan_reports"] = cov["counters"].get("tsan_reports", 0) + 1
                seen_reports.setdefault((kind, fns), blk)
        else:
            from vf.runner import parse_sanitizer
            for rep in parse_sanitizer(se):
                cov["counters"]["asan_reports"] = cov["counters"].get("asan_reports", 0) + 1
                seen_reports.setdefault(("asan:" + rep["kind"], (rep["where"],)), rep["text"][:1500])
    for (kind, fns), blk in seen_reports.items():
        viol.append(dict(prop="C07", kind="sanitizer:" + kind, fn=" ".join(fns), report=blk))
    cov["counters"]["distinct_row_to_thread_assignments"] = len(sigs)
    cov["counters"].setdefault("tsan_reports", 0)
    cov["threads_that_ran_kernel_calls_histogram"] = {str(k): v for k, v in sorted(tids_hist.items())}
    return cov, viol, inconc


PLAN = Plan("C07", RULE, ASSUME,
            workers={"quick": [("plain", 6, "C07")], "thorough": [("plain", 12, "C07")]},
            deciding=("regions:tsan", "kernel_calls_logged", "py_parallel_matrices_compared",
                      "distinct_row_to_thread_assignments"),
            native=native, crash_is_violation=True)


def run(ctx):
    """Python level: OpenMP and multiprocessing branches of dtw.distance_matrix vs serial"""
    import ctypes
    import functools
    import multiprocessing
    import numpy as np
    from dtaidistance import dtw, dtw_ndim
    rng = ctx.rng
    try:
        gomp = ctypes.CDLL("libgomp.so.1")
    except OSError:
        gomp = None
        ctx.notes["libgomp"] = "not loadable; thread count left to the runtime"
    orig_pool = multiprocessing.Pool
    N = ctx.scale(60, 600)
    for it in range(N):
        n = rng.choice([2, 3, 4, 6, 9, 14])
        nd = rng.choice([0, 0, 1, 2])
        equal = rng.random() < 0.5
        if it % 15 == 7:
            # scale-up slice: more than 256 / 1000 pairs (work partitioning, chunked dispatch), unequal lengths
            n, nd, equal = rng.choice([24, 30, 48, 52]), 0, rng.random() < 0.4
            ctx.count("py_large_collections")
        n0 = rng.randint(1, 8)
        lens = [n0 if equal else rng.randint(1, 8) for _ in range(n)]
        ss = [gen.series_nd(rng, m, nd) if nd else gen.series(rng, m) for m in lens]
        kw = gen.rand_settings(rng, min(lens), min(lens), with_mld=False)
        kw.pop("psi", None)
        x = rng.random()
        if x < 0.5 and min(lens) >= 2:
            m = min(lens) - 1
            kw["psi"] = (rng.randint(0, m), rng.randint(0, m), rng.randint(0, m), rng.randint(0, m))
        if isinstance(kw.get("inner_dist"), str) is False:
            kw.pop("inner_dist", None)
        if rng.random() < 0.5 and n >= 2:
            rb = rng.randrange(n); re = rng.randint(rb + 1, n)
            cb = rng.randrange(n); ce = rng.randint(cb + 1, n)
            block = ((rb, re), (cb, ce)) if rng.random() < 0.6 else ((rb, re), (cb, ce), False)
        else:
            block = None
        if n >= 24 and rng.random() < 0.7:
            block = None
        if equal and rng.random() < 0.5:
            data = np.array(ss)
        else:
            data = [np.array(s) for s in ss]
        f = dtw_ndim.distance_matrix if nd else dtw.distance_matrix
        for use_c in (True, False):
            try:
                base = list(f(data, block=block, compact=True, use_c=use_c, parallel=False, **kw))
            except Exception as e:
                ctx.violation("exception", fn="distance_matrix(serial)", use_c=use_c, error=repr(e)[:300], block=block)
                continue
            modes = [("omp", k) for k in rng.sample([1, 2, 3, 5, 16, 64], 2)] if use_c else []
            if it % 4 == 0 or n >= 24:
                modes += [("mp", k) for k in rng.sample([1, 2, 3, 16], 1)]
            for mode, k in modes:
                ctx.current("py %s k=%d use_c=%s block=%r %r %r" % (mode, k, use_c, block, ss, kw))
                try:
                    if mode == "omp":
                        if gomp is not None:
                            gomp.omp_set_num_threads(k)
                        got = list(f(data, block=block, compact=True, use_c=True, parallel=True, **kw))
                    else:
                        multiprocessing.Pool = functools.partial(orig_pool, processes=k)
                        try:
                            got = list(f(data, block=block, compact=True, use_c=use_c, parallel=True, use_mp=True, **kw))
                        finally:
                            multiprocessing.Pool = orig_pool
                except Exception as e:
                    ctx.violation("exception", fn="distance_matrix(parallel,%s)" % mode, use_c=use_c, workers=k,
                                  error=repr(e)[:300], block=block, settings=dict(dtwmon.settings_key(kw)))
                    continue
                ctx.count("py_parallel_matrices_compared")
                ctx.count("py_mode:%s" % mode)
                ctx.case(("py", mode, k, use_c, n, repr(block), dtwmon.settings_key(kw), it), k >= 2 and len(base) >= 2)
                if len(got) != len(base) or any(
                        not ((a == b) or (a != a and b != b)) for a, b in zip(got, base)):
                    ctx.violation("parallel-differs-from-serial", fn="distance_matrix", mode=mode, workers=k, use_c=use_c,
                                  block=block, series=ss, settings=dict(dtwmon.settings_key(kw)), parallel=got, serial=base)
