"""C17 — Needleman-Wunsch returns the optimal score and a consistent alignment."""
import itertools

from vf import oracle
from vf.oracle import inf
from vf.runner import Plan

RULE = ("cases = needleman_wunsch + best_alignment calls on pairs of sequences over a 3-symbol alphabet (single characters, "
        "multi-character words, tuples or integers; lengths 0..8, strings / lists / tuples) x scoring {default, dictionary substitution with custom gap cost, max and min "
        "orientation} x all six traceback orders. Oracle: independent DP over (i, j) prefixes, itself checked in this "
        "run against explicit enumeration of all gapped global alignments for lengths <= 4. Postconditions: value == "
        "maximum total score; the reconstructed alignment has two equal-length rows, removing gaps gives back the "
        "inputs, no column aligns a gap with a gap, its score equals the returned value. non-trivial = both sequences "
        "non-empty and the optimal alignment contains a gap or a mismatch.")
ASSUME = ["gap cost is constant per scoring function (as produced by make_substitution_fn and the default)",
          "scores compared with tolerance 1e-9"]
PLAN = Plan("C17", RULE, ASSUME,
            workers={"quick": [("plain", 8, "C17")], "thorough": [("plain", 16, "C17")]},
            deciding=("values_checked", "alignments_checked", "oracle_selfcheck_enumerations"))

ALPHA = "ABC"


def score_pair(a, b, matrix, modifier):
    if (a, b) in matrix:
        return -(matrix[(a, b)] * modifier)
    if (b, a) in matrix:
        return -(matrix[(b, a)] * modifier)
    return 1.0 if a == b else -1.0


def ref_nw(s1, s2, matrix, modifier, gap):
    """max total score over global alignments: pairs score score_pair, every gap column scores -gap"""
    r, c = len(s1), len(s2)
    S = [[0.0] * (c + 1) for _ in range(r + 1)]
    for i in range(1, r + 1):
        S[i][0] = -gap * i
    for j in range(1, c + 1):
        S[0][j] = -gap * j
    for i in range(1, r + 1):
        for j in range(1, c + 1):
            S[i][j] = max(S[i - 1][j - 1] + score_pair(s1[i - 1], s2[j - 1], matrix, modifier),
                          S[i - 1][j] - gap, S[i][j - 1] - gap)
    return S[r][c]


def enum_nw(s1, s2, matrix, modifier, gap):
    best = -inf
    n = 0

    def rec(i, j, sc):
        nonlocal best, n
        if i == len(s1) and j == len(s2):
            n += 1
            best = max(best, sc)
            return
        if i < len(s1) and j < len(s2):
            rec(i + 1, j + 1, sc + score_pair(s1[i], s2[j], matrix, modifier))
        if i < len(s1):
            rec(i + 1, j, sc - gap)
        if j < len(s2):
            rec(i, j + 1, sc - gap)
    rec(0, 0, 0.0)
    return best, n


def run(ctx):
    import numpy as np
    from dtaidistance import alignment
    rng = ctx.rng
    # oracle self-check
    for _ in range(60 if ctx.quick else 300):
        a = [rng.choice(ALPHA) for _ in range(rng.randint(0, 4))]
        b = [rng.choice(ALPHA) for _ in range(rng.randint(0, 4))]
        m = {(rng.choice(ALPHA), rng.choice(ALPHA)): rng.choice([-2, -1, 0.5, 1, 2, 3]) for _ in range(rng.randint(0, 4))}
        g = rng.choice([0.5, 1, 2])
        mod = rng.choice([-1.0, 1.0])
        v, n = enum_nw(a, b, m, mod, g)
        ctx.count("oracle_selfcheck_enumerations", n)
        if not oracle.close(v, ref_nw(a, b, m, mod, g)):
            raise RuntimeError("reference NW DP disagrees with enumeration")
    N = ctx.scale(12000, 100000)
    orders = list(itertools.permutations([0, 1, 2]))
    ALPHAS = [("chars", "ABC"), ("chars", "ABC"), ("words", ["ALA", "GLY", "SER"]), ("tuples", [(0, 1), (1, 0), (2, 2)]),
              ("ints", [0, 1, 2]), ("floats", [0.5, 1.5, 2.5]), ("chars", "AB-")]
    for _ in range(N):
        l1, l2 = rng.randint(0, 8), rng.randint(0, 8)
        if rng.random() < 0.02:
            l1, l2 = rng.randint(15, 45), rng.randint(15, 45)      # scale-up slice
            if rng.random() < 0.12:
                l1 = rng.randint(262, 310)
                l2 = l1 + rng.randint(-4, 4)      # beyond 256 symbols (small-int identity)
                ctx.count("sequences_longer_than_256")
            ctx.count("long_sequences")
        akind, alpha = rng.choice(ALPHAS)       # symbols need not be single characters
        ctx.count("alphabet:" + akind)
        s1 = [rng.choice(alpha) for _ in range(l1)]
        s2 = [rng.choice(alpha) for _ in range(l2)]
        fresh = None
        if akind != "chars" and rng.random() < 0.5:
            # equal symbols need not be the *same object*: rebuild every occurrence (large ints, floats and tuples are
            # not interned), so matching must go by equality
            fresh = {"words": lambda v: "".join(list(v)), "tuples": lambda v: tuple(list(v)), "ints": lambda v: int(str(1000 + v)),
                     "floats": lambda v: float(repr(v))}[akind]
            ctx.count("fresh_symbol_objects")
        # the marker used for gaps in the reconstructed alignment is the caller's choice
        GAP = rng.choice(["-", "-", ".", None, 0 if akind not in ("ints",) else -7])
        if rng.random() < 0.3 and l1:
            s2 = list(s1)
            for _k in range(rng.randint(0, 2)):
                if s2 and rng.random() < 0.5:
                    del s2[rng.randrange(len(s2))]
                else:
                    s2.insert(rng.randint(0, len(s2)), rng.choice(alpha))
        form = rng.choice(["str", "list", "tuple"]) if akind == "chars" else rng.choice(["list", "tuple"])
        if fresh is not None:
            if akind == "ints":
                alpha = [1000, 1001, 1002]
            s1 = [fresh(v) for v in s1]
            s2 = [fresh(v) for v in s2]
        if akind == "chars" and "-" in alpha and GAP == "-":
            GAP = "."

        def isgap(x, _g=GAP):
            return x is _g or (type(x) is type(_g) and x == _g)
        a = "".join(s1) if form == "str" else (list(s1) if form == "list" else tuple(s1))
        b = "".join(s2) if form == "str" else (list(s2) if form == "list" else tuple(s2))
        mode = rng.choice(["default", "dict_max", "dict_min", "gap_only"])
        matrix, gap, modifier, sub = {}, 1.0, -1.0, None
        tiny = False
        if mode != "default":
            if mode != "gap_only":
                matrix = {(rng.choice(alpha), rng.choice(alpha)): rng.choice([-2, -1, 0.5, 1, 2, 3])
                          for _ in range(rng.randint(1, 4))}
            gap = rng.choice([0.5, 1, 1, 2, 3, 0, 0.0])
            if mode != "gap_only" and rng.random() < 0.25:
                # near ties and tiny magnitudes: optimal and almost-optimal moves differ by less than float tolerances
                sc = rng.choice([1e-9, 1.0])
                if sc != 1.0:
                    # complete table, so that no pair falls back to the default +-1 scores
                    matrix = {(x_, y_): rng.choice([-2, -1, 0.5, 1, 2, 3]) for x_ in alpha for y_ in alpha}
                matrix = {k_: (v_ * sc + rng.choice([0, 4e-6 * sc, -3e-6 * sc])) for k_, v_ in matrix.items()}
                matrix[(rng.choice(alpha), rng.choice(alpha))] = -1.000004 * sc
                gap = rng.choice([0.5 * sc, 1.0 * sc])
                tiny = sc != 1.0
            if l1 == l2 and l1 >= 1 and rng.random() < 0.08:
                # gaps forbidden altogether: the optimum of equally long sequences is the gap-free alignment
                gap = inf
                ctx.count("infinite_gap_cost_cases")
            opt = "min" if mode == "dict_min" else "max"
            modifier = 1.0 if opt == "min" else -1.0
            sub = alignment.make_substitution_fn(dict(matrix), gap=gap, opt=opt)
        wit = dict(s1=s1, s2=s2, form=form, mode=mode, matrix={"%s|%s" % k: v for k, v in matrix.items()}, gap=gap, alphabet=akind)
        ctx.current("nw %r" % (wit,))
        try:
            value, scores, paths = alignment.needleman_wunsch(a, b, substitution=sub)
        except Exception as e:
            ctx.violation("exception", fn="needleman_wunsch", error=repr(e)[:300], **wit)
            continue
        want = ref_nw(s1, s2, matrix, modifier, gap)
        ctx.count("values_checked")
        ctx.case(("nw", tuple(s1), tuple(s2), mode, tuple(sorted(matrix.items())), gap), l1 > 0 and l2 > 0 and
                 want < sum(1.0 for _ in range(min(l1, l2))))
        fg_ = [abs(gap)] if gap != inf else []
        scale_ = max([abs(v_) for v_ in matrix.values()] + fg_ + [1e-300]) if tiny else max([abs(v_) for v_ in matrix.values()] + fg_ + [1.0])
        tol_ = 1e-9 * scale_ * (l1 + l2 + 1)
        if abs(float(value) - want) > tol_:
            ctx.violation("value-not-optimal", got=float(value), want=want, **wit)
            continue
        for order in ([None] + [list(o) for o in rng.sample(orders, 2)]):
            try:
                p, s1a, s2a = alignment.best_alignment(paths, a, b, gap=GAP, order=order)
            except Exception as e:
                ctx.violation("exception", fn="best_alignment", order=order, error=repr(e)[:300], **wit)
                continue
            ctx.count("alignments_checked")
            bad = None
            if len(s1a) != len(s2a):
                bad = "aligned sequences differ in length"
            elif [x for x in s1a if not isgap(x)] != s1 or [x for x in s2a if not isgap(x)] != s2:
                bad = "removing the gaps does not give back the inputs"
            elif any(isgap(x) and isgap(y) for x, y in zip(s1a, s2a)):
                bad = "a gap is aligned with a gap"
            else:
                sc = sum((-gap if (isgap(x) or isgap(y)) else score_pair(x, y, matrix, modifier)) for x, y in zip(s1a, s2a))
                if abs(sc - float(value)) > tol_:
                    bad = "alignment score %r differs from the returned value %r" % (sc, float(value))
            if bad:
                ctx.violation("alignment-inconsistent", reason=bad, order=order, s1a=s1a, s2a=s2a, value=float(value), **wit)
                break
        if len(ctx.samples) < 2 and l1 >= 3 and l2 >= 3:
            ctx.sample(dict(s1=s1, s2=s2, mode=mode, gap=gap, value=float(value), s1a=s1a, s2a=s2a))
