"""C08 — the C engine stays within its buffers and executes no undefined behaviour."""
import json
import os
import re
import subprocess
from pathlib import Path

from vf import build, native_build
from vf.runner import Plan, parse_sanitizer

RULE = ("cases = calls into the C engine observed by AddressSanitizer + UndefinedBehaviorSanitizer. (1) Native driver "
        "linking the repository's dd_dtw.c/dd_ed.c: EXHAUSTIVE grid len1,len2 in 1..L x window 0..max+1 x 7 psi "
        "shapes (none, 1, min-1, (l1-1,0,0,l2-1), (0,l1-1,l2-1,0), random 4-tuple up to the lengths, begin=l1) x 6 "
        "option sets (penalty, max_step, max_dist, pruning, all) x inner distance x ndim 1..3; every exported "
        "routine (distance, compact warping paths into a buffer of exactly dtw_settings_wps_length, expansion, all "
        "slices of small matrices, loc, best paths into index arrays of exactly len1+len2, affinity variants, max, "
        "negativize, bounds, six distance-matrix routines over all blocks for n<=3 (sampled above), DBA with unequal "
        "lengths and masks across a byte boundary) with separately malloc'ed exact-size buffers, redzone 256; distance-matrix outputs are pre-filled with a sentinel "
        "and every advertised entry must have been overwritten (the Cython wrapper passes uninitialised memory). "
        "(2) The ASan build of the extension modules loaded into the interpreter and driven by the C02, C04, C05, "
        "C06, C09, C12, C18 workloads (covers the Cython glue). (3) thorough: the native driver under valgrind "
        "memcheck. Any report whose stack contains a repository frame is a violation; reports are de-duplicated by "
        "(kind, innermost repository frame). non-trivial = native configuration (shape x settings) or a monitored "
        "Python-level call reaching C.")
ASSUME = ["red-zone tools miss far out-of-bounds accesses landing in another live block and intra-object overflows",
          "psi entries <= series length and no empty alignment (the property's quantifier)",
          "release configuration: asserts compiled out (-DNDEBUG) as in the shipped extension"]

PY_MODS = [m for m in ["C02", "C04", "C05", "C06", "C09", "C12", "C18"] if (Path(__file__).parent / (m + ".py")).exists()]


def native(tier, seed, scratch):
    tree = build.ensure("plain")
    out = Path(scratch) / "native"
    exe = native_build.drive(tree, out, "asan")
    maxlen = 6 if tier == "quick" else 8
    nsh = 16
    cov = dict(evaluations=0, nontrivial=[], samples=[], counters={})
    viol, inconc = [], []
    env = dict(os.environ)
    env["ASAN_OPTIONS"] = "detect_leaks=0:halt_on_error=0:redzone=256"
    env["UBSAN_OPTIONS"] = "print_stacktrace=1"
    env["OMP_WAIT_POLICY"] = "passive"
    procs = [subprocess.Popen([str(exe), str(maxlen), str(sh), str(nsh), str(seed + 1)], stdout=subprocess.PIPE,
                              stderr=subprocess.PIPE, text=True, env=env) for sh in range(nsh)]
    seen = {}
    for sh, p in enumerate(procs):
        try:
            so, se = p.communicate(timeout=1500 if tier == "quick" else 7000)
        except subprocess.TimeoutExpired:
            p.kill()
            inconc.append("native driver shard %d timed out" % sh)
            continue
        m = re.search(r"CONFIGS (\d+) CHECKSUM", so)
        if p.returncode != 0 or not m:
            if p.returncode < 0 or "Sanitizer" in se:
                viol.append(dict(prop="C08", kind="crash", flavour="native-asan", shard=sh, rc=p.returncode,
                                 stderr=se[-1800:]))
            else:
                inconc.append("native driver shard %d rc=%s: %s" % (sh, p.returncode, se[-300:]))
            continue
        n = int(m.group(1))
        cov["evaluations"] += n
        cov["nontrivial"] += ["native/%d/%d" % (sh, i) for i in range(n)]
        for line in so.splitlines():
            if line.startswith("CALLS "):
                name, cnt = line[6:].rsplit(" ", 1)
                cov["counters"]["native_calls:" + name] = cov["counters"].get("native_calls:" + name, 0) + int(cnt)
            if line.startswith("LENGTH-MISMATCH"):
                viol.append(dict(prop="C08", kind="sanitizer:length-mismatch", fn="dtw_distances_*", report=line))
            if line.startswith("PARALLEL-DIFFERS"):
                # not a memory-safety event by itself (C07 decides schedule independence); recorded as evidence
                cov["counters"]["native_parallel_differs_from_serial"] = cov["counters"].get("native_parallel_differs_from_serial", 0) + 1
            if line.startswith("UNWRITTEN"):
                # dtw_cc.pyx hands array.resize()d (uninitialised) memory to these routines: an advertised entry that
                # is not written is uninitialised memory returned to the Python caller
                viol.append(dict(prop="C08", kind="sanitizer:advertised-output-entry-not-written", fn="dtw_distances_*", report=line))
        for rep in parse_sanitizer(se):
            cov["counters"]["native_sanitizer_reports"] = cov["counters"].get("native_sanitizer_reports", 0) + 1
            seen.setdefault((rep["kind"], rep["where"]), rep)
    cov["counters"].setdefault("native_sanitizer_reports", 0)
    for (kind, where), rep in sorted(seen.items()):
        viol.append(dict(prop="C08", kind="sanitizer:" + kind, fn=where, report=rep["text"][:1800], flavour="native-asan"))
    cov["samples"].append(dict(native_driver="drive %d <shard> %d %d" % (maxlen, nsh, seed + 1),
                               first_configuration="len1=1 len2=1 window=0 psi=none options=none ndim=2 inner=squared",
                               buffers="exact-size malloc per call, ASan redzone 256"))
    try:
        fc = native_build.drive_coverage(tree, out, seed + 3)
        cov["c_function_line_coverage_percent_of_lines"] = {k: v for k, v in sorted(fc.items())}
        cov["counters"]["c_functions_reached"] = sum(1 for v in fc.values() if v[0] > 0)
        cov["counters"]["c_functions_not_reached"] = sum(1 for v in fc.values() if v[0] == 0)
    except Exception as e:       # coverage is evidence only, never a verdict
        cov["coverage_error"] = repr(e)[:300]
    # coverage-guided stage: libFuzzer + ASan + UBSan on the same driver body, every setting chosen independently
    fexe = native_build.fuzz(tree, out)
    if fexe is None:
        cov["counters"]["skipped:libfuzzer"] = 1
    else:
        nproc, runs = (8, 4000) if tier == "quick" else (16, 150000)
        fenv = dict(os.environ)
        fenv["ASAN_OPTIONS"] = "detect_leaks=0:redzone=256"
        fenv["UBSAN_OPTIONS"] = "print_stacktrace=1"
        fps = []
        for k in range(nproc):
            d = out / ("fuzz%d" % k)
            (d / "corpus").mkdir(parents=True, exist_ok=True)
            fo = open(d / "stderr.txt", "w+")
            fps.append((d, fo, subprocess.Popen([str(fexe), "-runs=%d" % runs, "-seed=%d" % (1000 * seed + k + 1), "-max_len=96",
                                                 "-len_control=0", "-print_final_stats=1", "-artifact_prefix=%s/" % d,
                                                 str(d / "corpus")], stdout=subprocess.DEVNULL, stderr=fo, env=fenv, cwd=d)))
        for k, (d, fo, p) in enumerate(fps):
            try:
                p.wait(timeout=1500 if tier == "quick" else 7000)
            except subprocess.TimeoutExpired:
                p.kill()
                inconc.append("libFuzzer job %d exceeded the wall-clock watchdog" % k)
                continue
            fo.seek(0)
            se = fo.read()
            fo.close()
            m = re.search(r"stat::number_of_executed_units: (\d+)", se)
            nexec = int(m.group(1)) if m else 0
            cov["counters"]["fuzz_executions"] = cov["counters"].get("fuzz_executions", 0) + nexec
            cov["evaluations"] += nexec
            covs = re.findall(r"cov: (\d+) ft: (\d+) corp: (\d+)", se)
            if covs:
                cov["counters"]["fuzz_edges_covered_max"] = max(cov["counters"].get("fuzz_edges_covered_max", 0), int(covs[-1][0]))
                cov["counters"]["fuzz_features_max"] = max(cov["counters"].get("fuzz_features_max", 0), int(covs[-1][1]))
                cov["counters"]["fuzz_corpus_units"] = cov["counters"].get("fuzz_corpus_units", 0) + int(covs[-1][2])
                cov["nontrivial"] += ["fuzz/%d/%d" % (k, i) for i in range(int(covs[-1][2]))]
            arts = sorted(x for x in d.iterdir() if x.name.startswith(("crash-", "timeout-", "oom-", "leak-")))
            if p.returncode != 0 or arts:
                reps = parse_sanitizer(se)
                art = arts[0].read_bytes() if arts else b""
                if arts and arts[0].name.startswith(("timeout-", "oom-")):
                    inconc.append("libFuzzer job %d: %s" % (k, arts[0].name))
                    continue
                kind = "sanitizer:" + reps[0]["kind"] if reps else "crash"
                where = reps[0]["where"] if reps else "libFuzzer rc=%s" % p.returncode
                if (kind, where) not in seen:
                    seen[(kind, where)] = True
                    viol.append(dict(prop="C08", kind=kind, fn=where, flavour="libfuzzer-asan",
                                     report=(reps[0]["text"][:1800] if reps else se[-1800:]),
                                     fuzz_input_hex=art.hex(), how_to_replay="drive_fuzz <file holding these bytes>"))
            elif not m:
                inconc.append("libFuzzer job %d produced no statistics" % k)
    if tier == "thorough":
        vexe = native_build.drive(tree, out, "plain")
        vp = [subprocess.Popen(["valgrind", "-q", "--error-exitcode=9", "--track-origins=no", str(vexe), "4", str(sh), "8",
                                str(seed + 2)], stdout=subprocess.PIPE, stderr=subprocess.PIPE, text=True)
              for sh in range(8)]
        for sh, p in enumerate(vp):
            try:
                so, se = p.communicate(timeout=7000)
            except subprocess.TimeoutExpired:
                p.kill()
                inconc.append("valgrind shard %d timed out" % sh)
                continue
            cov["counters"]["valgrind_shards"] = cov["counters"].get("valgrind_shards", 0) + 1
            errs = re.findall(r"==\d+== (Invalid (?:read|write)[^\n]*|Conditional jump[^\n]*|Use of uninitialised[^\n]*)\n"
                              r"==\d+==    at [^\n]*\n(?:==\d+==    by [^\n]*\n)*", se)
            if p.returncode == 9 or errs:
                blk = se[:2500]
                fm = re.search(r"(?:at|by) 0x[0-9A-F]+: (\w+) \((dd_\w+\.c):(\d+)\)", se)
                if fm:
                    viol.append(dict(prop="C08", kind="sanitizer:valgrind", fn="%s %s:%s" % fm.groups(), report=blk))
                else:
                    # no repository frame in any report: a defect of the driver itself, not of the library
                    # (the rule above); never a verdict on the library, but never silently "held" either
                    inconc.append("valgrind shard %d: report(s) without a repository frame (driver defect?): %s"
                                  % (sh, blk[:400]))
        # (4) the Python-level workloads under valgrind memcheck (PYTHONMALLOC=malloc): the only stage that sees *uses of
        # uninitialised memory* inside the kernels and the Cython glue (ASan does not).  One small shard per module.
        from vf import runner as _runner
        venv = _runner._worker_env(tree, "plain", str(out))
        venv["PYTHONMALLOC"] = "malloc"
        venv["VF_SCALE"] = "0.03"
        vjobs = []
        for mod in PY_MODS:
            d = out / ("vgpy-" + mod)
            d.mkdir(parents=True, exist_ok=True)
            fe = open(d / "valgrind.txt", "w+")
            cmd = ["valgrind", "-q", "--error-exitcode=0", "--track-origins=no", "--num-callers=14", _runner.PY, "-m", "vf.worker",
                   mod, "0", "48", str(seed), "quick", "plain", str(d / "result.json")]
            vjobs.append((mod, d, fe, subprocess.Popen(cmd, cwd=str(_runner.VERIF), env=venv, stdout=fe, stderr=subprocess.STDOUT)))
        for mod, d, fe, p in vjobs:
            try:
                p.wait(timeout=7000)
            except subprocess.TimeoutExpired:
                p.kill()
                inconc.append("valgrind python shard %s exceeded the wall-clock watchdog" % mod)
                continue
            fe.seek(0)
            se = fe.read()
            fe.close()
            if not (d / "result.json").exists():
                inconc.append("valgrind python shard %s produced no result: %s" % (mod, se[-300:]))
                continue
            try:
                wres = json.loads((d / "result.json").read_text())
                cov["counters"]["valgrind_python_cases:" + mod] = int(wres.get("evaluations", 0))
                cov["evaluations"] += int(wres.get("evaluations", 0))
            except Exception:
                pass
            cov["counters"]["valgrind_python_shards"] = cov["counters"].get("valgrind_python_shards", 0) + 1
            blocks = re.split(r"\n==\d+== \n", se)
            for blk in blocks:
                if not re.search(r"== (Invalid (read|write)|Conditional jump|Use of uninitialised|Syscall param)", blk):
                    continue
                fm = re.search(r"(?:at|by) 0x[0-9A-F]+: (\w+) \(((?:dd_\w+|dtw_cc\w*|ed_cc|util_numpy_cc)\.c):(\d+)\)", blk)
                if not fm:
                    cov["counters"]["valgrind_python_reports_without_repository_frame"] = \
                        cov["counters"].get("valgrind_python_reports_without_repository_frame", 0) + 1
                    continue
                where = "%s %s:%s" % fm.groups()
                if ("valgrind-python", where) not in seen:
                    seen[("valgrind-python", where)] = True
                    viol.append(dict(prop="C08", kind="sanitizer:valgrind", fn=where, flavour="python workload %s under memcheck" % mod,
                                     report=blk[:2000]))
    return cov, viol, inconc


PLAN = Plan("C08", RULE, ASSUME,
            workers={"quick": [("asan", 2, m) for m in PY_MODS],
                     "thorough": [("asan", 3, m) for m in PY_MODS]},
            deciding=("native_calls:dtw_distance_ndim", "native_calls:dtw_best_path", "native_calls:dtw_dba_ptrs",
                      "native_calls:dtw_expand_wps_slice"),
            native=native, crash_is_violation=True, only_kinds=("sanitizer:", "crash"), exhaustive=True)
