"""C06 — distance matrix = pairwise distances in the documented layout, for any block."""
import array

from vf import dtwmon, gen, monitors, oracle
from vf.oracle import inf
from vf.runner import Plan
from vf import ownsuite

RULE = ("cases = (collection, block, output form, engine) calls of dtw.distance_matrix / distance_matrix_fast / "
        "dtw_ndim.distance_matrix / dtw_cc.distance_matrix(_ndim) / distances_array_to_matrix / "
        "distance_array_index. EXHAUSTIVE over blocks: for every n <= N every ((rb,re),(cb,ce)) and "
        "((rb,re),(cb,ce),False) with 0<=rb<re<=n, 0<=cb<ce<=n plus None, x {compact, square, only_triu} x "
        "{Python serial, C serial} x containers {list of ndarrays, list of lists/array.array, 2-D array, list of "
        "2-D arrays, 3-D array} x equal/unequal lengths, with random DTW settings per collection. The oracle is "
        "an independent row-major pair enumerator plus a table of single-pair distances computed with the "
        "Python engine. non-trivial = the block selects at least one pair.")
ASSUME = ["single-pair distances are taken from the Python engine (checked by C01); C entries may differ by 16 ulp",
          "with only_triu the diagonal may be 0 or inf (not specified)", "a rectangular non-triangular block in "
          "square form is documented to raise and is not generated"]
PLAN = Plan("C06", RULE, ASSUME, native=ownsuite.native_for("c06", "C06"),
            workers={"quick": [("plain", 16, "C06")], "thorough": [("plain", 13, "C06"), ("asan", 3, "C06")]},
            deciding=("blocks_checked", "entries_checked", "square_forms_checked", "condensed_index_checked"),
            crash_is_violation=True, exhaustive=True)


def all_blocks(n):
    rng_ = [(b, e) for b in range(n) for e in range(b + 1, n + 1)]
    out = [None]
    for rb, re in rng_:
        for cb, ce in rng_:
            out.append(((rb, re), (cb, ce)))
            out.append(((rb, re), (cb, ce), False))
    return out


def pairs_of(n, block):
    if block is None:
        return [(r, c) for r in range(n) for c in range(r + 1, n)]
    (rb, re), (cb, ce) = block[0], block[1]
    triu = not (len(block) > 2 and block[2] is False)
    return [(r, c) for r in range(rb, re) for c in range(cb, ce) if (c > r or not triu)]


def run(ctx):
    import numpy as np
    from dtaidistance import dtw, dtw_ndim, dtw_cc
    rng = ctx.rng
    pyd = dtw.distance
    N = 6 if ctx.quick else 7
    reps = 8 if ctx.quick else 20
    idx = 0
    for n in range(1, N + 1):
        for rep in range(reps):
            for cont in ("list_np", "list_py", "matrix", "ndim_list", "ndim_matrix", "ndim_list_F"):
                nd = 0 if not cont.startswith("ndim") else (rep % 3) + 1 + (n % 2)
                equal = cont in ("matrix", "ndim_matrix") or (n + rep) % 2 == 0
                crng = __import__("random").Random(1000 * n + 10 * rep + len(cont) + ctx.seed)
                n0 = crng.randint(1, 5)
                lens = [n0 if equal else crng.randint(1, 5) for _ in range(n)]
                if nd:
                    ss = [gen.series_nd(crng, m, nd, "dyadic") for m in lens]
                else:
                    ss = [gen.series(crng, m, "dyadic") for m in lens]
                    if equal and n0 >= 3 and crng.random() < 0.3:
                        # near-copies of one series that differ mainly in their first / last samples: relaxed ends make
                        # them close although every bound computed on the whole series is large
                        base_ = gen.series(crng, n0, "dyadic")
                        ss = []
                        for _m in lens:
                            t_ = list(base_)
                            if crng.random() < 0.7:
                                t_[0] += crng.choice([-8.0, 6.0, 9.5])
                            if crng.random() < 0.5:
                                t_[-1] += crng.choice([-7.0, 5.0])
                            if crng.random() < 0.3:
                                t_[crng.randrange(n0)] += 0.25
                            ss.append(t_)
                        ctx.count("collections_with_spiky_ends")
                kw = gen.rand_settings(crng, min(lens), min(lens), with_mld=False)
                kw.pop("psi", None)
                x = crng.random()
                if x < 0.3:
                    kw["psi"] = crng.randint(0, min(lens) - 1)
                elif x < 0.65 and min(lens) >= 2:
                    m = min(lens) - 1
                    kw["psi"] = (crng.randint(0, m), crng.randint(0, m), crng.randint(0, m), crng.randint(0, m))
                if not equal and crng.random() < 0.35:
                    # pairs whose length difference equals the limit exactly are still comparable
                    kw["max_length_diff"] = crng.choice([1, 2, 3])
                    ctx.count("collections_with_max_length_diff")
                if nd:
                    kwp = dict(kw, use_ndim=True)
                else:
                    kwp = dict(kw)
                table = None
                for block in all_blocks(n):
                    idx += 1
                    if not ctx.mine(idx):
                        continue
                    if table is None:
                        with monitors.quiet():
                            arrs = [np.array(s) for s in ss]
                            table = [[float(pyd(arrs[a], arrs[b], **kwp)) for b in range(n)] for a in range(n)]
                        if crng.random() < 0.25 and "max_step" not in kw:
                            # a threshold is one more DTW setting: entries above it are inf, all others unchanged
                            fin_ = sorted({v for row in table for v in row if v not in (0.0, inf)})
                            if len(fin_) >= 2:
                                k_ = crng.randrange(len(fin_) - 1)
                                if fin_[k_ + 1] - fin_[k_] > 1e-3 * fin_[k_ + 1]:
                                    m_ = 0.5 * (fin_[k_] + fin_[k_ + 1])
                                    kw["max_dist"] = m_
                                    table = [[(v if v <= m_ else inf) for v in row] for row in table]
                                    ctx.count("collections_with_max_dist")
                    check_block(ctx, np, dtw, dtw_ndim, dtw_cc, cont, nd, ss, kw, block, table)

    # scale-up slice: collections of more than 8 / 16 / 32 / 64 series with random blocks
    for rep in range(ctx.scale(48, 300)):
        idx += 1
        if not ctx.mine(idx):
            continue
        crng = __import__("random").Random(77000 + rep + ctx.seed)
        n = crng.choice([9, 16, 17, 33, 64, 65, crng.randint(18, 70), 100, crng.randint(66, 110)])
        cont = crng.choice(["list_np", "matrix", "ndim_matrix", "ndim_list"])
        nd = 2 if cont.startswith("ndim") else 0
        equal = cont in ("matrix", "ndim_matrix") or crng.random() < 0.5
        n0 = crng.randint(1, 4)
        lens = [n0 if equal else crng.randint(1, 4) for _ in range(n)]
        ss = [gen.series_nd(crng, m, nd, "dyadic") if nd else gen.series(crng, m, "dyadic") for m in lens]
        kw = {}
        if crng.random() < 0.5:
            kw["window"] = crng.randint(1, 3)
        kwp = dict(kw, use_ndim=True) if nd else dict(kw)
        with monitors.quiet():
            arrs = [np.array(s) for s in ss]
            table = [[float(pyd(arrs[a], arrs[b], **kwp)) if b > a else 0.0 for b in range(n)] for a in range(n)]
            for a_ in range(n):
                for b_ in range(a_):
                    table[a_][b_] = table[b_][a_]
        ctx.count("large_collections")
        for _b in range(8):
            rb = crng.randrange(n); re_ = crng.randint(rb + 1, n); cb = crng.randrange(n); ce = crng.randint(cb + 1, n)
            block = crng.choice([None, ((rb, re_), (cb, ce)), ((rb, re_), (cb, ce), False), ((0, n), (cb, ce)), ((rb, re_), (0, n)),
                                 ((0, re_), (0, n)), ((rb, re_), (0, n), False), ((0, re_), (cb, n)), ((rb, n), (0, n))])
            check_block(ctx, np, dtw, dtw_ndim, dtw_cc, cont, nd, ss, kw, block, table)

    # one large collection, every number of block rows (C engine against the pairwise table): row counts that happen to be
    # a multiple of some internal chunk size are all among them
    if ctx.mine(idx + 1):
        crng = __import__("random").Random(99000 + ctx.seed)
        n = 100
        for cont in ("list_np", "matrix"):
            ss = [gen.series(crng, 3 if cont == "matrix" else crng.randint(1, 3), "dyadic") for _ in range(n)]
            with monitors.quiet():
                arrs = [np.array(s) for s in ss]
                table = [[0.0] * n for _ in range(n)]
                for a_ in range(n):
                    for b_ in range(a_ + 1, n):
                        table[a_][b_] = table[b_][a_] = float(pyd(arrs[a_], arrs[b_]))
            for re_ in range(1, n + 1):
                for block in (((0, re_), (0, n)), ((0, re_), (0, n), False)):
                    if block[-1] is False and re_ % 7:
                        continue
                    check_block(ctx, np, dtw, dtw_ndim, dtw_cc, cont, 0, ss, {}, block, table, engines=("c",))
            ctx.count("row_count_sweeps_on_100_series")


def make_container(np, cont, ss, engine):
    if cont == "list_np":
        return [np.array(s) for s in ss]
    if cont == "list_py":
        return [list(s) for s in ss] if engine == "py" else [array.array("d", s) for s in ss]
    if cont == "matrix":
        return np.array(ss)
    if cont == "ndim_list":
        return [np.array(s) for s in ss]
    if cont == "ndim_matrix":
        return np.array(ss)
    if cont == "ndim_list_F":
        return [np.asfortranarray(np.array(s, dtype=float)) for s in ss]
    raise ValueError(cont)


def check_block(ctx, np, dtw, dtw_ndim, dtw_cc, cont, nd, ss, kw, block, table, engines=("py", "c")):
    n = len(ss)
    pairs = pairs_of(n, block)
    want = [table[r][c] for r, c in pairs]
    ctx.count("blocks_checked")
    ctx.case(("block", cont, n, repr(block), dtwmon.settings_key(kw)), len(pairs) > 0)
    if not pairs:
        ctx.count("blocks_selecting_no_pair")
    triu = not (block is not None and len(block) > 2 and block[2] is False)
    wit = dict(container=cont, n=n, block=block, series=ss, settings=dict(dtwmon.settings_key(kw)), ndim=nd)
    for engine in engines:
        data = make_container(np, cont, ss, engine)
        if nd:
            def f(**o):
                return dtw_ndim.distance_matrix(data, use_c=(engine == "c"), block=block, **kw, **o)
            fn = "dtw_ndim.distance_matrix[%s]" % engine
        else:
            def f(**o):
                return dtw.distance_matrix(data, use_c=(engine == "c"), block=block, **kw, **o)
            fn = "dtw.distance_matrix[%s]" % engine
        ctx.current("%s %s n=%d block=%r %r %r" % (fn, cont, n, block, ss, kw))
        # compact form
        try:
            got = f(compact=True)
        except Exception as e:
            ctx.violation("exception", fn=fn, form="compact", error=repr(e)[:300], **wit)
            continue
        got = list(got)
        if len(got) != len(want):
            ctx.violation("compact-length", fn=fn, got=len(got), want=len(want), **wit)
            continue
        for k, (g, w_) in enumerate(zip(got, want)):
            ctx.count("entries_checked")
            if not dtwmon.engines_agree(g, w_, ctx):
                ctx.violation("compact-entry", fn=fn, index=k, pair=list(pairs[k]), got=float(g), want=w_, **wit)
                break
        if len(ctx.samples) < 2 and block is not None and len(pairs) >= 2:
            ctx.sample(dict(fn=fn, container=cont, n=n, block=block, pairs=pairs, compact=got))
        # square forms
        if not triu:
            continue
        for only_triu in (False, True):
            try:
                M = f(compact=False, only_triu=only_triu)
            except Exception as e:
                ctx.violation("exception", fn=fn, form="square", only_triu=only_triu, error=repr(e)[:300], **wit)
                continue
            ctx.count("square_forms_checked")
            M = np.asarray(M)
            if M.shape != (n, n):
                ctx.violation("square-shape", fn=fn, got=list(M.shape), **wit)
                continue
            exp = [[inf] * n for _ in range(n)]
            for (r, c), w_ in zip(pairs, want):
                exp[r][c] = w_
                if not only_triu:
                    exp[c][r] = w_
            bad = None
            for r in range(n):
                for c in range(n):
                    g = float(M[r, c])
                    if r == c:
                        ok = g == 0 or (only_triu and g == inf)
                    else:
                        ok = dtwmon.engines_agree(g, exp[r][c])
                    if not ok:
                        bad = (r, c, g, exp[r][c] if r != c else 0.0)
                        break
                if bad:
                    break
            if bad:
                ctx.violation("square-entry", fn=fn, only_triu=only_triu, cell=[bad[0], bad[1]], got=bad[2],
                              want=bad[3], **wit)
    # helpers: condensed index and array->matrix on the full triangular result
    if block is None and n >= 2:
        full = [table[r][c] for r, c in pairs_of(n, None)]
        for a in range(n):
            for b in range(n):
                if a == b:
                    continue
                ctx.count("condensed_index_checked")
                try:
                    k = dtw.distance_array_index(a, b, n)
                    if not (0 <= k < len(full)) or full[k] != table[min(a, b)][max(a, b)]:
                        ctx.violation("condensed-index", a=a, b=b, n=n, got=k)
                except Exception as e:
                    ctx.violation("exception", fn="dtw.distance_array_index", error=repr(e)[:200], a=a, b=b, n=n)
    # direct C entry point with the SeriesContainer (no dtw.distance_matrix wrapper)
    if cont in ("list_np", "matrix") and not nd:
        try:
            ckw = dtw.DTWSettings(**kw).c_kwargs()
            got = list(dtw_cc.distance_matrix(make_container(np, cont, ss, "c"), block=block, **ckw))
            ctx.count("direct_dtw_cc_calls")
            if len(got) != len(want) or any(not dtwmon.engines_agree(g, w_) for g, w_ in zip(got, want)):
                ctx.violation("compact-entry", fn="dtw_cc.distance_matrix", got=got, want=want, **wit)
        except Exception as e:
            ctx.violation("exception", fn="dtw_cc.distance_matrix", error=repr(e)[:300], **wit)
