"""C05 — every reported best path is a valid warping path that achieves the distance."""
from vf import dtwmon, gen, monitors, oracle, wpsmon
from vf.oracle import inf
from vf.runner import Plan
from vf import ownsuite

RULE = ("cases = paths returned by dtw.best_path / best_path2 on Python and C matrices (psi_neg on and off, "
        "internal representation with penalty), dtw.warping_path, dtw.warping_path_fast, dtw_cc.warping_path, "
        "dtw_cc.warping_path_ndim, dtw_cc.best_path_compact, dtw_ndim.warping_path, dtw.warp and best_path with "
        "a custom start cell; each validated by an independent path checker (steps, band, relaxed corners) and "
        "its accumulated cost incl. penalties compared with the distance the library reports for the same "
        "settings (and with the reference optimum). Complete grid len<=L x window x int psi x penalty plus "
        "seeded random series over a dyadic alphabet (exact costs, many ties) crossing window x penalty x psi "
        "tuple x inner distance x ndim. non-trivial = both lengths >= 2, finite non-zero distance, and the "
        "path has a non-diagonal step or psi is active.")
ASSUME = ["paths are compared by validity and cost, never by identity (engines may return different optimal paths)",
          "max_step / max_dist are not part of this property's quantifier and are not generated",
          "cost tolerance 1e-9"]
PLAN = Plan("C05", RULE, ASSUME, native=ownsuite.native_for("c05", "C05"),
            workers={"quick": [("plain", 16, "C05")], "thorough": [("plain", 13, "C05"), ("asan", 3, "C05")]},
            deciding=("c05_paths_checked", "paths:dtw.best_path(py-matrix)", "paths:dtw.warping_path_fast",
                      "paths:dtw_cc.best_path_compact"),
            crash_is_violation=True)


def nontrivial(path, d, kw, r, c):
    if min(r, c) < 2 or d in (0, inf):
        return False
    nd = any(not (b[0] == a[0] + 1 and b[1] == a[1] + 1) for a, b in zip(path, path[1:]))
    return nd or bool(kw.get("psi"))


def one(ctx, mods, np, s1, s2, kw, nd):
    dtw, dtw_ndim, dtw_cc = mods
    rng = ctx.rng
    r, c = len(s1), len(s2)
    kwn = dict(kw, use_ndim=True) if nd else dict(kw)
    L1, L2 = dtwmon.tolist(s1), dtwmon.tolist(s2)
    key = (dtwmon.flat(L1), dtwmon.flat(L2), dtwmon.settings_key(kwn))
    ref = dtwmon.ref_for(L1, L2, kwn)
    inn = dtwmon.inner_of(kwn)
    pen_int = inn.ival(kw["penalty"]) if kw.get("penalty") else 0

    psi_t = oracle.norm_psi(kw.get("psi"))
    model = {}
    BT_CODES = [getattr(g_, "__wrapped__", g_).__code__ for g_ in (dtw.best_path, dtw.best_path2)
                if hasattr(getattr(g_, "__wrapped__", g_), "__code__")]

    def run(fname, f, want=None, start=None, extra=None):
        ctx.current("%s %r %r %r" % (fname, L1, L2, kwn))
        if start is None and (psi_t[1] or psi_t[3]) and "paths" in model:
            extra = dict(extra or {}, psi_end_active=True, greedy_model_paths=model["paths"])
        try:
            # bounded progress: back-tracking visits at most r + c cells, so it finishes within a fixed number of
            # executed lines per cell (a logical bound; a wall-clock timeout would only be inconclusive)
            with monitors.step_bound(BT_CODES, 400 * (r + c + 5)):
                res = f()
        except monitors.StepLimit as e:
            ctx.violation("invalid-path", fn=fname, reason="no progress: " + str(e), s1=L1, s2=L2,
                          settings=dict(dtwmon.settings_key(kwn)), path=[], **(extra or {}))
            return None
        except Exception as e:
            ctx.violation("exception", fn=fname, s1=L1, s2=L2, settings=dict(dtwmon.settings_key(kwn)),
                          error=repr(e)[:300], **(extra or {}))
            return None
        path, d = res if isinstance(res, tuple) else (res, want)
        ctx.count("paths:" + fname)
        ok = wpsmon.check_path(ctx, fname, path, s1, s2, kwn, d, start_cell=start, extra=extra)
        if ok and d is not None and start is None and not oracle.close(float(d), ref):
            ctx.violation("reported-distance-not-optimal", fn=fname, s1=L1, s2=L2,
                          settings=dict(dtwmon.settings_key(kwn)), reported=float(d), reference=ref)
        ctx.case((fname,) + key + (start,), nontrivial(path, d if d is not None else ref, kw, r, c))
        if ok and len(ctx.samples) < 3 and nontrivial(path, ref, kw, r, c) and kw.get("window"):
            ctx.sample(dict(fn=fname, s1=L1, s2=L2, settings=dict(dtwmon.settings_key(kwn)),
                            path=[list(map(int, p)) for p in path], distance=d))
        return path

    # Python matrix (transformed; penalty-free back-tracking is only defined without penalty)
    with monitors.quiet():
        try:
            dP, MP = dtw.warping_paths(s1, s2, psi_neg=True, **kwn)
            dI, MI = dtw.warping_paths(s1, s2, psi_neg=True, keep_int_repr=True, **kwn)
            dN, MN = dtw.warping_paths(s1, s2, psi_neg=False, keep_int_repr=True, **kwn)
        except Exception as e:
            ctx.violation("exception", fn="dtw.warping_paths", s1=L1, s2=L2, settings=dict(dtwmon.settings_key(kwn)),
                          error=repr(e)[:300])
            return
    if psi_t[1] or psi_t[3]:
        model["paths"] = wpsmon.greedy_backtrack_models(MI.tolist(), pen_int)
    if not kw.get("penalty"):
        run("dtw.best_path(py-matrix)", lambda: dtw.best_path(MP), want=float(dP))
        run("dtw.best_path2(py-matrix)", lambda: dtw.best_path2(MP), want=float(dP))
    run("dtw.best_path(py-matrix)", lambda: dtw.best_path(MI, penalty=pen_int), want=float(inn.result(dI)) if dI != inf else inf,
        extra=dict(representation="internal"))
    # custom start cell on the matrix without -1 marks: path must end there and cost = that cell
    cells = [(i, j) for i in range(1, r + 1) for j in range(1, c + 1) if MN[i, j] != inf]
    if cells:
        i, j = rng.choice(cells)
        run("dtw.best_path(row,col)", lambda: dtw.best_path(MN, row=i, col=j, penalty=pen_int),
            want=float(inn.result(MN[i, j])), start=(i - 1, j - 1), extra=dict(row=i, col=j))
    run("dtw.warping_path", lambda: dtw.warping_path(s1, s2, include_distance=True, **kwn))
    if nd:
        run("dtw_ndim.warping_path", lambda: dtw_ndim.warping_path(s1, s2, include_distance=True, **kw))
    if not isinstance(kw.get("inner_dist", ""), str):
        return
    # C engine
    if not nd:
        run("dtw.warping_path_fast", lambda: dtw.warping_path_fast(s1, s2, include_distance=True, **kw))
    ckw = dtw.DTWSettings(**kw).c_kwargs()
    if nd:
        run("dtw_cc.warping_path_ndim", lambda: dtw_cc.warping_path_ndim(s1, s2, ndim=nd, include_distance=True, **ckw))
    else:
        run("dtw_cc.warping_path", lambda: dtw_cc.warping_path(s1, s2, include_distance=True, **ckw))
    with monitors.quiet():
        try:
            dC, MC = dtw.warping_paths_fast(s1, s2, psi_neg=True, **kwn)
            dK, MK = dtw.warping_paths_fast(s1, s2, psi_neg=True, compact=True, keep_int_repr=True, **kwn)
        except Exception as e:
            ctx.violation("exception", fn="dtw.warping_paths_fast", s1=L1, s2=L2,
                          settings=dict(dtwmon.settings_key(kwn)), error=repr(e)[:300])
            return
    if not kw.get("penalty"):
        run("dtw.best_path(c-matrix)", lambda: dtw.best_path(MC), want=float(dC))
    cs = dtw.DTWSettings.for_dtw(s1, s2, **kwn).c_kwargs()
    if not kw.get("penalty") and rng.random() < 0.4:
        # a caller-owned matrix that is reused across pairs (old finite content, also outside the new band), filled by
        # the Cython entry point and traced with the Python back-tracking
        try:
            old_ = rng.choice([0.0, 0.125, 1.0, 50.0])
            out_ = np.full((r + 1, c + 1), old_)
            a1_, a2_ = np.ascontiguousarray(s1, dtype=float), np.ascontiguousarray(s2, dtype=float)
            with monitors.quiet():
                if rng.random() < 0.5:      # an earlier, unconstrained pair of the same shape
                    (dtw_cc.warping_paths_ndim if nd else dtw_cc.warping_paths)(out_, a1_, a2_, psi_neg=True)
                dR_ = (dtw_cc.warping_paths_ndim if nd else dtw_cc.warping_paths)(out_, a1_, a2_, psi_neg=True, **cs)
            ctx.count("c05_reused_output_matrix_paths")
            run("dtw.best_path(c-matrix, reused output array)", lambda: dtw.best_path(out_), want=float(dR_))
        except Exception as e:
            ctx.violation("exception", fn="dtw_cc.warping_paths(reused output matrix)+best_path", s1=L1, s2=L2,
                          settings=dict(dtwmon.settings_key(kwn)), error=repr(e)[:300])
    if kw.get("inner_dist", "squared euclidean") == "squared euclidean" or not kw.get("penalty"):
        run("dtw_cc.best_path_compact", lambda: dtw_cc.best_path_compact(MK, r, c, **cs),
            want=float(inn.result(dK)) if dK != inf else inf)
        # exported C routines without a Cython wrapper (C API users): custom start cell and tolerance-based back-tracking
        if not nd and clib(dtw_cc) is not None:
            with monitors.quiet():
                dKn, MKn = dtw.warping_paths_fast(s1, s2, psi_neg=False, compact=True, keep_int_repr=True, **kwn)
            if cells:
                ci, cj = rng.choice(cells)
                run("C:dtw_best_path_customstart", lambda: c_custom(dtw_cc, np, MKn, r, c, cs, ci, cj),
                    want=float(inn.result(MN[ci, cj])), start=(ci - 1, cj - 1), extra=dict(row=ci, col=cj))
            if not (psi_t[1] or psi_t[3]):
                run("C:dtw_best_path_isclose", lambda: c_custom(dtw_cc, np, MKn, r, c, cs, isclose=(1e-9, 1e-12)),
                    want=float(inn.result(dKn)) if dKn != inf else inf)


_CLIB = {}


def clib(dtw_cc):
    """exported C path routines that have no Cython wrapper, reached through ctypes on the extension module itself"""
    if "lib" in _CLIB:
        return _CLIB["lib"]
    import ctypes
    idx_t = ctypes.c_ssize_t

    class CSettings(ctypes.Structure):
        _fields_ = [("window", idx_t), ("max_dist", ctypes.c_double), ("max_step", ctypes.c_double),
                    ("max_length_diff", idx_t), ("penalty", ctypes.c_double),
                    ("psi_1b", idx_t), ("psi_1e", idx_t), ("psi_2b", idx_t), ("psi_2e", idx_t),
                    ("use_pruning", ctypes.c_bool), ("only_ub", ctypes.c_bool),
                    ("inner_dist", ctypes.c_int), ("window_type", ctypes.c_int)]
    try:
        lib = ctypes.CDLL(dtw_cc.__file__)
        dp, ip = ctypes.POINTER(ctypes.c_double), ctypes.POINTER(idx_t)
        lib.dtw_settings_default.restype = CSettings
        lib.dtw_best_path_customstart.restype = idx_t
        lib.dtw_best_path_customstart.argtypes = [dp, ip, ip, idx_t, idx_t, idx_t, idx_t, ctypes.POINTER(CSettings)]
        lib.dtw_best_path_isclose.restype = idx_t
        lib.dtw_best_path_isclose.argtypes = [dp, ip, ip, idx_t, idx_t, ctypes.c_double, ctypes.c_double, ctypes.POINTER(CSettings)]
        # layout self-check: the defaults must read back as the documented defaults
        d = lib.dtw_settings_default()
        if (d.window, d.penalty, d.psi_1b, d.psi_2e, d.use_pruning, d.inner_dist) != (0, 0.0, 0, 0, False, 0):
            lib = None
    except (OSError, AttributeError):
        lib = None
    _CLIB["lib"] = (lib, CSettings, idx_t) if lib is not None else None
    return _CLIB["lib"]


def c_custom(dtw_cc, np, MK, r, c, cs, rs=None, cs_col=None, isclose=None):
    import ctypes
    lib, CSettings, idx_t = clib(dtw_cc)
    st = lib.dtw_settings_default()
    st.window, st.penalty, st.inner_dist = cs["window"], cs["penalty"], cs["inner_dist"]
    st.max_step, st.max_dist = cs["max_step"], cs["max_dist"]
    st.psi_1b, st.psi_1e, st.psi_2b, st.psi_2e = oracle.norm_psi(cs["psi"])
    wps = np.ascontiguousarray(MK, dtype=np.double)
    i1 = (idx_t * (r + c))()
    i2 = (idx_t * (r + c))()
    dp = ctypes.POINTER(ctypes.c_double)
    if isclose is not None:
        n = lib.dtw_best_path_isclose(wps.ctypes.data_as(dp), i1, i2, r, c, isclose[0], isclose[1], ctypes.byref(st))
    else:
        n = lib.dtw_best_path_customstart(wps.ctypes.data_as(dp), i1, i2, r, c, rs, cs_col, ctypes.byref(st))
    return [(int(i1[k]), int(i2[k])) for k in range(n)][::-1]


def run(ctx):
    import numpy as np
    from dtaidistance import dtw, dtw_ndim, dtw_cc
    monitors.guard_backtracking(ctx)      # bounded progress for every back-tracking call, wherever it is made
    mods = (dtw, dtw_ndim, dtw_cc)
    rng = ctx.rng
    L, W = (6, 6) if ctx.quick else (8, 9)
    idx = 0
    for r, c, w, p in gen.grid_shapes(L, W):
        idx += 1
        if not ctx.mine(idx):
            continue
        s1 = np.array(gen.pattern_series(r, idx % 3))
        s2 = np.array(gen.pattern_series(c, (idx + 1) % 3))
        kw = {}
        if w is not None:
            kw["window"] = w
        if p:
            kw["psi"] = p
        if idx % 2:
            kw["penalty"] = 0.5
        ctx.count("grid_cases")
        one(ctx, mods, np, s1, s2, kw, 0)
    N = ctx.scale(3500, 40000)
    for _ in range(N):
        r, c = rng.randint(1, 10), rng.randint(1, 10)
        if rng.random() < 0.3:
            c = r
        nd = rng.choice([0, 0, 0, 1, 2, 3])
        kind = rng.choice(["dyadic", "dyadic", "alpha", "mono", None])
        if nd:
            s1, s2 = np.array(gen.series_nd(rng, r, nd, kind)), np.array(gen.series_nd(rng, c, nd, kind))
        else:
            s1, s2 = np.array(gen.series(rng, r, kind)), np.array(gen.series(rng, c, kind))
        kw = gen.rand_settings(rng, r, c, with_mld=False, with_max_step=False)
        ctx.count("random_cases")
        one(ctx, mods, np, s1, s2, kw, nd)
    # scale-up slice: long structured series (ties along constant runs, several shifted rows in the compact layout)
    for _ in range(ctx.scale(40, 400)):
        r = rng.randint(20, 70)
        c = r if rng.random() < 0.3 else max(2, r + rng.choice([-1, 1]) * rng.randint(1, 25))
        s1, s2 = np.array(gen.structured_series(rng, r)), np.array(gen.structured_series(rng, c))
        kw = gen.rand_settings(rng, r, c, with_mld=False, with_max_step=False)
        if kw.get("window"):
            kw["window"] = rng.choice([1, 2, 3, 5, abs(r - c) + 1, max(r, c) // 3, max(r, c) // 2]) or 1
        ctx.count("long_series_cases")
        one(ctx, mods, np, s1, s2, kw, 0)
    # dtw.warp: warped series = per-column means along a valid path
    M = ctx.scale(600, 6000)
    for _ in range(M):
        r, c = rng.randint(1, 9), rng.randint(1, 9)
        s1, s2 = np.array(gen.series(rng, r, "dyadic")), np.array(gen.series(rng, c, "dyadic"))
        kw = gen.rand_settings(rng, r, c, with_mld=False, with_max_step=False)
        kw.pop("psi", None)
        try:
            warped, path = dtw.warp(s1, s2, **kw)
        except Exception as e:
            ctx.violation("exception", fn="dtw.warp", s1=s1.tolist(), s2=s2.tolist(),
                          settings=dict(dtwmon.settings_key(kw)), error=repr(e)[:300])
            continue
        ctx.count("paths:dtw.warp")
        if wpsmon.check_path(ctx, "dtw.warp", path, s1, s2, kw, dtwmon.ref_for(s1.tolist(), s2.tolist(), kw)):
            for j in range(c):
                vals = [s1[i] for i, jj in path if jj == j]
                if not vals or not oracle.close(float(warped[j]), sum(vals) / len(vals)):
                    ctx.violation("warp-not-column-mean", fn="dtw.warp", s1=s1.tolist(), s2=s2.tolist(),
                                  settings=dict(dtwmon.settings_key(kw)), column=j, got=float(warped[j]))
                    break
