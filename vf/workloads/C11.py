"""C11 — multivariate DTW is DTW with vector point distances, in both engines."""
from vf import dtwmon, gen, monitors, oracle, wpsmon
from vf.oracle import inf
from vf.runner import Plan
from vf.workloads import C04, C05

RULE = ("cases = multivariate calls (d in 1..4): dtw_ndim.distance checked by the C01 oracle with vector point "
        "distances; dtw_ndim.distance_fast / dtw_cc.distance_ndim by the C02 differential monitor; "
        "dtw_ndim.warping_paths(_fast) cell by cell (C04 monitors); dtw_ndim.warping_path and "
        "dtw_cc.warping_path_ndim by the C05 path monitors; dtw_ndim.distance_matrix(_fast) entries vs single-pair "
        "calls for the containers {list of 2-D arrays, 3-D array, list of lists of lists (Python engine)}; the "
        "d = 1 reduction (results equal the univariate routines on the flattened series); the multivariate "
        "Euclidean bound and use_pruning. Values carry dimension-specific offsets so that a stride error changes "
        "the result. non-trivial = d >= 2, both lengths >= 2, finite non-zero distance.")
ASSUME = ["same tolerances as C01/C02/C04/C05", "C engine requires ndarray containers (documented)"]
PLAN = Plan("C11", RULE, ASSUME,
            workers={"quick": [("plain", 16, "C11")], "thorough": [("plain", 13, "C11"), ("asan", 3, "C11")]},
            deciding=("c01_oracle_checks", "c02_differential_checks", "c04_cells_checked", "c05_paths_checked",
                      "d1_reduction_checks", "ndim_matrix_entries_checked"),
            crash_is_violation=True)


def run(ctx):
    import numpy as np
    from dtaidistance import dtw, dtw_ndim, dtw_cc, ed, ed_cc
    rng = ctx.rng
    n, npaths, bad = oracle.selfcheck(rng, 100)
    ctx.count("oracle_selfcheck_cases", n)
    if bad:
        raise RuntimeError("reference DP disagrees with enumeration")
    monitors.attach(ctx, dtw, "distance", dtwmon.c01_post(ctx, label="C11"))
    monitors.attach(ctx, dtw, "distance_fast", dtwmon.c02_post(ctx, dtw, "dtw.distance_fast", False, False, label="C11"))
    monitors.attach(ctx, dtw_cc, "distance_ndim", dtwmon.c02_post(ctx, dtw, "dtw_cc.distance_ndim", True, True, label="C11"))
    monitors.attach(ctx, dtw_cc, "distance_ndim_assinglearray",
                    dtwmon.c02_post(ctx, dtw, "dtw_cc.distance_ndim_assinglearray", True, True, label="C11"))
    mods = (dtw, dtw_ndim, dtw_cc)
    N = ctx.scale(2500, 30000)
    for _ in range(N):
        r, c = rng.randint(1, 9), rng.randint(1, 9)
        if rng.random() < 0.3:
            c = r
        nd = rng.randint(1, 4)
        kind = rng.choice([None, "alpha", "dyadic", "neg"])
        s1, s2 = np.array(gen.series_nd(rng, r, nd, kind)), np.array(gen.series_nd(rng, c, nd, kind))
        if rng.random() < 0.06:
            off_ = rng.choice([1.7e9, 3.0e8, 5.0e6])      # a channel with a large common offset
            s1 = s1 + np.array([off_] + [0.0] * (nd - 1))
            s2 = s2 + np.array([off_] + [0.0] * (nd - 1))
            ctx.count("cases_with_large_offset")
        kw = gen.rand_settings(rng, r, c, with_mld=False)
        ctx.count("cases")
        # distance: Python (oracle) and C (differential)
        for route in ("py", "fast", "cc", "flat"):
            ctx.current("%s %r %r %r" % (route, s1.tolist(), s2.tolist(), kw))
            try:
                if route == "py":
                    cont = rng.choice(["np", "lists"])
                    a, b = (s1, s2) if cont == "np" else (s1.tolist(), s2.tolist())
                    if cont == "lists":
                        a, b = [np.array(v) for v in a], [np.array(v) for v in b]
                    dtw_ndim.distance(a, b, **kw)
                elif route == "fast":
                    kwf = dict(kw)
                    if rng.random() < 0.3:
                        kwf["use_pruning"] = True
                    f1_, f2_ = s1, s2
                    if nd >= 2 and rng.random() < 0.35:
                        # column-major series (the .T view of a channels x time recording): same numbers, other layout
                        lay_ = rng.choice(["F", "Tview"])
                        f1_ = np.asfortranarray(s1) if lay_ == "F" else np.ascontiguousarray(s1.T).T
                        if rng.random() < 0.7:
                            f2_ = np.asfortranarray(s2) if lay_ == "F" else np.ascontiguousarray(s2.T).T
                        ctx.count("fast_route_column_major_series")
                    dtw_ndim.distance_fast(f1_, f2_, **kwf)
                elif route == "flat":
                    # the same series handed over as one flat buffer each (row-major points)
                    dtw_cc.distance_ndim_assinglearray(s1.reshape(-1).copy(), s2.reshape(-1).copy(), nd,
                                                       **dtw.DTWSettings(**kw).c_kwargs())
                else:
                    dtw_cc.distance_ndim(s1, s2, **dtw.DTWSettings(**kw).c_kwargs())
            except Exception as e:
                ctx.violation("exception", fn="dtw_ndim.distance[%s]" % route, error=repr(e)[:300], s1=s1.tolist(),
                              s2=s2.tolist(), settings=dict(dtwmon.settings_key(kw)))
        # the multivariate Euclidean upper bound: definition (vector point distances, padding with the last point of the
        # shorter series) == Python == C, through every entry point that returns it
        if isinstance(kw.get("inner_dist", "squared euclidean"), str):
            inner_ = kw.get("inner_dist", "squared euclidean")
            inn_ = oracle.INNER[(inner_, True)]
            want_ub = oracle.ref_ed(s1.tolist(), s2.tolist(), inn_.dist, inn_.result)
            ubs = [("ed.distance(use_ndim)", lambda: ed.distance(s1, s2, inner_dist=inner_, use_ndim=True)),
                   ("dtw_ndim.ub_euclidean", lambda: dtw_ndim.ub_euclidean(s1, s2, inner_dist=inner_)),
                   ("dtw_ndim.distance(only_ub)", lambda: dtw_ndim.distance(s1, s2, only_ub=True, inner_dist=inner_)),
                   ("dtw_ndim.distance_fast(only_ub)", lambda: dtw_ndim.distance_fast(s1, s2, only_ub=True, inner_dist=inner_)),
                   ("ed_cc.distance_ndim", lambda: ed_cc.distance_ndim(s1, s2, inner_dist=0 if inner_[0] == "s" else 1))]
            if inner_[0] == "s":
                ubs.append(("dtw_cc.ub_euclidean_ndim", lambda: dtw_cc.ub_euclidean_ndim(s1, s2)))
            for name_, f_ in ubs:
                try:
                    with monitors.quiet():
                        v_ = float(f_())
                except Exception as e:
                    ctx.violation("exception", fn=name_, error=repr(e)[:300], s1=s1.tolist(), s2=s2.tolist())
                    continue
                ctx.count("ndim_upper_bound_checks")
                if not oracle.close(v_, want_ub):
                    ctx.violation("ndim-upper-bound", fn=name_, got=v_, reference=want_ub, s1=s1.tolist(), s2=s2.tolist(),
                                  inner_dist=inner_)
        # matrices and paths (monitors of C04 / C05, labelled by this property through the run)
        kw2 = {k: v for k, v in kw.items() if k != "max_step"}
        kw4 = dict(kw)
        if rng.random() < 0.3:
            kw4["use_pruning"] = True        # the multivariate bound inside the cost-matrix kernels
        with monitors.quiet():
            m1_, m2_ = s1, s2
            if nd >= 2 and rng.random() < 0.25:
                m1_, m2_ = np.asfortranarray(s1), np.ascontiguousarray(s2.T).T
                ctx.count("matrix_route_column_major_series")
            C04.one(ctx, dtw, dtw_cc, np, m1_, m2_, kw4, psi_neg=rng.random() < 0.5, keep=rng.random() < 0.3, nd=nd)
            C05.one(ctx, mods, np, s1, s2, kw2, nd)
        # d = 1 reduction
        if nd == 1:
            f1, f2 = s1.reshape(-1), s2.reshape(-1)
            for eng, fa, fb in (("py", dtw_ndim.distance, dtw.distance), ("c", dtw_ndim.distance_fast, dtw.distance_fast)):
                with monitors.quiet():
                    try:
                        a, b = float(fa(s1, s2, **kw)), float(fb(f1, f2, **kw))
                    except Exception as e:
                        ctx.violation("exception", fn="d1-reduction[%s]" % eng, error=repr(e)[:300])
                        continue
                ctx.count("d1_reduction_checks")
                if not dtwmon.engines_agree(a, b, ctx):
                    ctx.violation("d1-reduction", engine=eng, ndim_result=a, univariate_result=b, s1=s1.tolist(),
                                  s2=s2.tolist(), settings=dict(dtwmon.settings_key(kw)))
            with monitors.quiet():
                ub_n = float(dtw_ndim.ub_euclidean(s1, s2))
                ub_1 = float(dtw.ub_euclidean(f1, f2))
            ctx.count("d1_reduction_checks")
            if not dtwmon.engines_agree(ub_n, ub_1):
                ctx.violation("d1-reduction", what="ub_euclidean", ndim_result=ub_n, univariate_result=ub_1)
    # distance matrices over containers
    M = ctx.scale(400, 4000)
    for _ in range(M):
        k = rng.randint(2, 5)
        nd = rng.randint(1, 4)
        equal = rng.random() < 0.6
        n0 = rng.randint(1, 6)
        lens = [n0 if equal else rng.randint(1, 6) for _ in range(k)]
        ss = [gen.series_nd(rng, m, nd) for m in lens]
        kw = gen.rand_settings(rng, min(lens), min(lens), with_mld=False)
        kw.pop("psi", None)
        x_ = rng.random()
        if x_ < 0.25:
            kw["psi"] = rng.randint(0, min(lens) - 1)
        elif x_ < 0.6 and min(lens) >= 2:
            m_ = min(lens) - 1
            kw["psi"] = (rng.randint(0, m_), rng.randint(0, m_), rng.randint(0, m_), rng.randint(0, m_))
        with monitors.quiet():
            table = [[float(dtw_ndim.distance(np.array(ss[a]), np.array(ss[b]), **kw)) for b in range(k)] for a in range(k)]
        conts = [("list2d", [np.array(s) for s in ss], (False, True)),
                 ("list2d_F", [np.asfortranarray(np.array(s, dtype=float)) for s in ss], (False, True)),
                 ("list2d_Tview", [np.ascontiguousarray(np.array(s, dtype=float).T).T for s in ss], (False, True))]
        if equal:
            conts.append(("3d", np.array(ss), (False, True)))
        for cname, data, engines in conts:
            for use_c in engines:
                ctx.current("dm %s use_c=%s %r %r" % (cname, use_c, ss, kw))
                try:
                    with monitors.quiet():
                        got = list(dtw_ndim.distance_matrix(data, compact=True, use_c=use_c, **kw)) if use_c or cname != "x" \
                            else None
                except Exception as e:
                    ctx.violation("exception", fn="dtw_ndim.distance_matrix", container=cname, use_c=use_c,
                                  error=repr(e)[:300], settings=dict(dtwmon.settings_key(kw)))
                    continue
                pairs = [(a, b) for a in range(k) for b in range(a + 1, k)]
                if len(got) != len(pairs):
                    ctx.violation("matrix-length", container=cname, use_c=use_c, got=len(got), want=len(pairs))
                    continue
                for (a, b), g in zip(pairs, got):
                    ctx.count("ndim_matrix_entries_checked")
                    if not dtwmon.engines_agree(g, table[a][b], ctx):
                        ctx.violation("ndim-matrix-entry", container=cname, use_c=use_c, pair=[a, b], got=float(g),
                                      want=table[a][b], series=ss, settings=dict(dtwmon.settings_key(kw)))
                        break
                ctx.case(("dm", cname, use_c, k, nd, dtwmon.settings_key(kw), repr(ss)), nd >= 2)
