"""C14 — k-NN subsequence search is exact despite lower bounds and early abandoning."""
from vf import dtwmon, gen, monitors, oracle
from vf.oracle import inf
from vf.runner import Plan

RULE = ("cases = operations (kbest_matches(k), best_match(), align(k), reset()) on SubsequenceSearch objects: query "
        "x 1..N candidate series (duplicates, exact ties, adversarial orders: best last / best first / all equal / "
        "sorted descending) x k in 1..N+1 or None x window/penalty/max_dist/max_value x use_lb x use_c x ndim. Each "
        "answer is compared with an exhaustive reference (all candidate distances computed with the monitored "
        "dtw.distance without any bound, sorted): reported distances must be the k smallest in ascending order, every "
        "reported index must have exactly the reported distance, at most k matches; and every operation of a random "
        "call sequence on one object must equal the answer of a fresh object. The relational C03 monitor is attached "
        "to the nested dtw.distance calls the search makes with its running threshold. non-trivial = >= 3 candidates "
        "and k smaller than the number of candidates within max_dist.")
ASSUME = ["distances compared with 1e-9 relative tolerance; indices only through their distance (ties are free)",
          "psi-relaxation is not combined with use_lb (LB_Keogh is only claimed without psi, C09)"]
PLAN = Plan("C14", RULE, ASSUME,
            workers={"quick": [("plain", 16, "C14")], "thorough": [("plain", 13, "C14"), ("asan", 3, "C14")]},
            deciding=("answers_checked_against_exhaustive", "history_ops_checked", "nested_distance_calls_observed",
                      "lb_skips_observed"),
            crash_is_violation=True)


class _InjectedFault(Exception):
    pass


def expected(dists, k, max_dist):
    """reference answer: list of distances"""
    if k is None:
        vals = [(d if (max_dist is None or d <= max_dist) else inf) for d in dists]
        return sorted(vals)
    ok = sorted(d for d in dists if d != inf and (max_dist is None or d <= max_dist))
    return ok[:k]


def run(ctx):
    import numpy as np
    from dtaidistance import dtw, dtw_ndim
    from dtaidistance.subsequence.subsequencesearch import SubsequenceSearch, subsequence_search
    rng = ctx.rng
    pyd = dtw.distance
    nested = {"n": 0, "lb": 0}

    # nested observation: the running threshold handed to dtw.distance must never change a result
    def pyd_unmon(s1, s2, **kw):
        kw.pop("use_c", None)
        return pyd(s1, s2, use_c=False, **kw)
    c03 = dtwmon.c03_distance_post(ctx, pyd_unmon, "dtw.distance[nested in SubsequenceSearch]", label="C14")

    def post(a, kw, result, pre):
        nested["n"] += 1
        if not kw.get("use_c"):
            c03(a, kw, result, pre)
    monitors.attach(ctx, dtw, "distance", post)
    lbo = dtw.lb_keogh

    def lb_post(a, kw, result, pre):
        nested["lb"] += 1
    monitors.attach(ctx, dtw, "lb_keogh", lb_post)

    N = ctx.scale(900, 10000)
    for it in range(N):
        nd = rng.choice([0, 0, 0, 2])
        r = rng.randint(1, 6)
        n = rng.randint(1, 14 if ctx.quick else 30)
        if it % 40 == 11:
            n = rng.choice([17, 33, 65, rng.randint(20, 80)])      # scale-up slice: many candidates (heap / threshold updates)
            ctx.count("large_candidate_lists")
        kind = rng.choice(["alpha", "dyadic", "gauss", "small"])
        exact_tie = (not nd) and rng.random() < 0.06
        mk = (lambda m: gen.series_nd(rng, m, nd, kind)) if nd else (lambda m: gen.series(rng, m, kind))
        q = mk(r)
        equal = rng.random() < 0.7
        cands = [mk(r if equal else rng.randint(1, 7)) for _ in range(n)]
        if n >= 3 and rng.random() < 0.5:
            cands[rng.randrange(n)] = list(cands[rng.randrange(n)])       # duplicate
        long_q = (not nd) and it % 45 == 21
        if long_q:
            # scale-up slice: long queries (64-200 points) against delayed / scaled copies: the envelope of the lower
            # bound spans many points and the window matters
            r = rng.choice([64, 65, 80, 96, 128, 200])
            n = rng.randint(3, 8)
            q = gen.structured_series(rng, r, rng.choice(["pulse", "walk", "steps", "periodic"]))
            cands = []
            for _c in range(n):
                sh_ = rng.randint(0, 6)
                cands.append([q[max(0, i_ - sh_)] + rng.choice([0.0, 0.1, 0.5]) * rng.random() for i_ in range(r)])
            equal = True
            ctx.count("long_query_cases")
        opts = {}
        if exact_tie:
            # constant query and candidates: lower bound == distance == an exactly representable number, so a user
            # threshold equal to a distance is meaningful ("ignore distances LARGER than max_dist")
            r = rng.choice([1, 4]) if rng.random() < 0.5 else r
            equal = True
            av = float(rng.randint(-3, 3))
            q = [av] * r
            cands = [[float(rng.randint(-6, 6))] * r for _ in range(n)]
            if r not in (1, 4):
                opts["inner_dist"] = "euclidean"
            ctx.count("exact_threshold_tie_cases")
        elif not nd and rng.random() < 0.25:
            opts["inner_dist"] = "euclidean"
        if rng.random() < 0.5:
            opts["window"] = rng.randint(1, 7)
        if long_q:
            opts["window"] = rng.choice([2, 4, 6, 10])
        if rng.random() < 0.3:
            opts["penalty"] = rng.choice([0.1, 1.0])
        use_lb = rng.random() < 0.6
        if rng.random() < 0.15 and not use_lb:
            opts["psi"] = 1 if min([r] + [len(c) for c in cands]) >= 2 else 0
        use_c = rng.choice([None, False, True])
        qa = np.array(q, dtype=float)
        ca = [np.array(c, dtype=float) for c in cands]
        with monitors.quiet():
            base_opts = dict(opts)
            dist_f = dtw_ndim.distance if nd else dtw.distance
            dists = [float(dist_f(qa, c, **base_opts)) for c in ca]
        order = rng.choice(["as_is", "best_last", "best_first", "descending", "all_equal"])
        idxs = list(range(n))
        if order == "best_last":
            idxs.sort(key=lambda i: -dists[i])
        elif order == "best_first":
            idxs.sort(key=lambda i: dists[i])
        elif order == "descending":
            idxs.sort(key=lambda i: -dists[i])
        elif order == "all_equal":
            idxs = [0] * n
        ca = [ca[i] for i in idxs]
        dists = [dists[i] for i in idxs]
        if not nd and rng.random() < 0.3:
            # candidates as non-contiguous views: windows of one channel of a (time, channel) recording
            ca = [np.stack([x, np.full(len(x), 50.0 + len(x))], axis=1)[:, 0] for x in ca]
            ctx.count("strided_candidate_cases")
        fin = sorted(d for d in dists if d != inf)
        md = mv = None
        x = rng.random()
        if fin and x < 0.25:
            md = rng.choice(fin) * rng.choice([0.999, 1.001]) + (0.0 if rng.random() < 0.8 else 1e-3)
        elif fin and x < 0.4:
            mv = (rng.choice(fin) * rng.choice([0.999, 1.001])) / r
        eff = None
        if md is not None:
            eff = md
        if mv is not None:
            eff = mv * r if eff is None else min(eff, mv * r)
        if eff is not None and any(abs(d - eff) <= 1e-6 * max(abs(d), abs(eff)) for d in fin):
            eff = md = mv = None
        if exact_tie:
            ints = [d for d in fin if float(d).is_integer() and d > 0]      # 0 means "no limit" throughout the library
            if ints and "psi" not in opts:
                md, mv = rng.choice(ints), None      # sqrt/square round trips are exact for these
                eff = md
                ctx.count("exact_threshold_tie_cases_with_threshold")
        wit = dict(query=q, candidates=[c.tolist() for c in ca], options=opts, use_lb=use_lb, use_c=use_c, max_dist=md,
                   max_value=mv, order=order, ndim=nd, max_dist_inside_options=None)

        via_helper = rng.random() < 0.3
        # documented precedence: a max_dist inside dists_options is ignored when the max_dist argument is given
        stale_md = None
        if md is not None and rng.random() < 0.3:
            stale_md = md * rng.choice([0.25, 4.0])
            ctx.count("options_with_a_second_max_dist")
            wit["max_dist_inside_options"] = stale_md
        can_c = isinstance(opts.get("inner_dist", ""), str)

        def fresh():
            o_ = dict(opts)
            if stale_md is not None:
                o_["max_dist"] = stale_md
            if via_helper:
                ctx.count("objects_built_by_helper")
                return subsequence_search(qa, ca, dists_options=o_, use_lb=use_lb, max_dist=md, max_value=mv, use_c=use_c)
            return SubsequenceSearch(qa, ca, dists_options=o_, use_lb=use_lb, max_dist=md, max_value=mv, use_c=use_c)

        def answer(obj, op):
            kind_, k = op
            if kind_ == "kbest":
                ms = obj.kbest_matches(k=k)
                out_ = [(float(m.distance), int(m.idx)) for m in ms]
                # the container protocol of the returned matches is one more view on the same answer
                if len(ms) != len(out_):
                    raise AssertionError("len(matches)=%d but %d matches are iterated" % (len(ms), len(out_)))
                for i_ in range(len(out_)):
                    mi = ms[i_]
                    if (float(mi.distance), int(mi.idx)) != out_[i_]:
                        raise AssertionError("matches[%d] differs from the %d-th iterated match" % (i_, i_))
                    if not oracle.close(float(mi.value), out_[i_][0] / len(qa)):
                        raise AssertionError("value is not distance / len(query)")
                    if obj.k is not None and i_ < obj.k:
                        gv = obj.get_ith_value(i_)
                        if (float(gv[0]), int(gv[1])) != out_[i_]:
                            raise AssertionError("get_ith_value(%d) differs from the %d-th match" % (i_, i_))
                if len(out_) >= 2:
                    sl = [(float(m.distance), int(m.idx)) for m in ms[1:]]
                    if sl != out_[1:]:
                        raise AssertionError("matches[1:] differs from the iterated matches")
                ctx.count("match_container_checks")
                return out_
            if kind_ == "kbest_fast":
                return [(float(m.distance), int(m.idx)) for m in obj.kbest_matches_fast(k=k)]
            if kind_ == "best_fast":
                m = obj.best_match_fast()
                return [(float(m.distance), int(m.idx))]
            if kind_ == "align_fast":
                return [(float(d), int(i)) for d, i in obj.align_fast(k=k)]
            if kind_ == "best":
                m = obj.best_match()
                return [(float(m.distance), int(m.idx))]
            if kind_ == "align":
                return [(float(d), int(i)) for d, i in obj.align(k=k)]
            if kind_ == "fault":
                # a search aborted by an exception part-way through the candidates (a failing loader, a raising
                # inner distance, KeyboardInterrupt): later, perfectly normal calls must still answer like a fresh object
                k_, j_ = k
                orig_ = (dtw.distance, dtw_ndim.distance)
                cnt_ = {"n": 0}

                def failing(f_):
                    def w_(*a_, **kw_):
                        cnt_["n"] += 1
                        if cnt_["n"] > j_:
                            raise _InjectedFault()
                        return f_(*a_, **kw_)
                    return w_
                dtw.distance, dtw_ndim.distance = failing(orig_[0]), failing(orig_[1])
                try:
                    obj.align(k=k_)
                except _InjectedFault:
                    ctx.count("searches_aborted_by_an_injected_exception")
                finally:
                    dtw.distance, dtw_ndim.distance = orig_
                return None
            obj.reset()
            return None

        # two objects built from the *same* options dictionary: the second must behave like a fresh one
        if it % 3 == 0:
            try:
                shared = dict(opts)
                o1 = SubsequenceSearch(qa, ca, dists_options=shared, use_lb=use_lb, max_dist=md, max_value=mv, use_c=use_c)
                [m.distance for m in o1.kbest_matches(k=1)]
                o2 = SubsequenceSearch(qa, ca, dists_options=shared, use_lb=use_lb, max_dist=md, max_value=mv, use_c=use_c)
                got2 = [float(m.distance) for m in o2.kbest_matches(k=min(3, n))]
                exp2 = expected(dists, min(3, n), eff)
                ctx.count("shared_options_checks")
                if len(got2) != len(exp2) or any(not oracle.close(x, y) for x, y in zip(got2, exp2)):
                    ctx.violation("history-dependence", reason="second object built from the same options dictionary",
                                  got=got2, expected_distances=exp2, dictionary_now={k: repr(v) for k, v in shared.items()}, **wit)
            except Exception as e:
                ctx.violation("exception", fn="shared options", error=repr(e)[:300], **wit)
        ops = []
        for _ in range(rng.randint(1, 5)):
            y = rng.random()
            kk = rng.choice([1, 2, 3, n, n + 1, None, rng.randint(1, n + 1)])
            if can_c and not nd and rng.random() < 0.2:
                ops.append((rng.choice(["kbest_fast", "best_fast", "align_fast"]), kk))
                if ops[-1][0] == "best_fast":
                    ops[-1] = ("best_fast", 1)
            elif y < 0.55:
                ops.append(("kbest", kk))
            elif y < 0.7:
                ops.append(("best", 1))
            elif y < 0.9:
                ops.append(("align", kk))
            else:
                ops.append(("reset", None))
        if rng.random() < 0.2:
            # fault history: an aborted search (exception after j distance computations) followed by normal calls
            at = rng.randint(0, len(ops))
            ops.insert(at, ("fault", (rng.choice([1, 2, n, None]), rng.randint(0, max(0, n - 1)))))
            ops.insert(at + 1, (rng.choice(["kbest", "align"]), rng.choice([2, 3, n, None])))
        ctx.current("search %r ops=%r" % (wit, ops))
        before = (nested["n"], nested["lb"])
        try:
            obj = fresh()
        except Exception as e:
            ctx.violation("exception", fn="SubsequenceSearch", error=repr(e)[:300], **wit)
            continue
        for step, op in enumerate(ops):
            try:
                got = answer(obj, op)
                want_obj = answer(fresh(), op)
            except Exception as e:
                if op[0] in ("best", "best_fast") and not [d for d in dists if d != inf and (eff is None or d <= eff)]:
                    continue     # nothing to return: raising is acceptable
                ctx.violation("exception", fn=op[0], op=list(op), step=step, ops=[list(o) for o in ops], error=repr(e)[:300], **wit)
                break
            if got is None:
                continue
            k = op[1] if op[0] not in ("best", "best_fast") else 1
            exp = expected(dists, k, eff)
            ctx.count("answers_checked_against_exhaustive")
            gd = [d for d, _ in got]
            bad = None
            if k is not None and len(got) > k:
                bad = "more than k matches returned"
            elif len(gd) != len(exp) or any(not oracle.close(a, b) for a, b in zip(gd, exp)):
                bad = "distances are not the k smallest in ascending order"
            elif any((0 <= i < n) is False or not (oracle.close(d, dists[i]) or (d == inf and eff is not None and dists[i] > eff))
                     for d, i in got):
                bad = "an index does not have the reported distance"
            elif len({i for _, i in got}) != len(got):
                bad = "an index is reported twice"
            ctx.case(("ss", repr(q), repr(wit["candidates"]), dtwmon.settings_key(opts), use_lb, use_c, md, mv, op, step),
                     n >= 3 and k is not None and k < len([d for d in dists if d != inf and (eff is None or d <= eff)]))
            if bad:
                ctx.violation("knn-not-exact", reason=bad, op=list(op), step=step, ops=[list(o) for o in ops], got=got,
                              expected_distances=exp, all_distances=dists, **wit)
                break
            ctx.count("history_ops_checked")
            if [d for d, _ in got] != [d for d, _ in want_obj] and \
                    any(not oracle.close(a, b) for a, b in zip([d for d, _ in got], [d for d, _ in want_obj])) or len(got) != len(want_obj):
                ctx.violation("history-dependence", op=list(op), step=step, ops=[list(o) for o in ops], got=got,
                              fresh_object=want_obj, **wit)
                break
        ctx.count("nested_distance_calls_observed", nested["n"] - before[0])
        if use_lb and not nd:
            ctx.count("lb_calls_observed", nested["lb"] - before[1])
            # a candidate skipped by the bound makes fewer distance calls than candidates
        if len(ctx.samples) < 2 and n >= 4:
            ctx.sample(dict(query=q, candidates=wit["candidates"], options=opts, use_lb=use_lb, ops=[list(o) for o in ops],
                            all_distances=dists))
    # lower bound actually prunes: count skipped candidates on a crafted instance
    qa = np.array([0.0, 0.0, 0.0, 0.0])
    ca = [np.array([0.0, 0.1, 0.0, 0.0])] + [np.array([5.0 + i, 6.0, 7.0, 8.0]) for i in range(6)]
    n0 = nested["n"]
    obj = SubsequenceSearch(qa, ca, dists_options={"window": 2}, use_lb=True)
    got = obj.kbest_matches(k=1)
    calls = nested["n"] - n0
    ctx.count("lb_skips_observed", max(0, len(ca) - calls))
    if [int(m.idx) for m in got] != [0]:
        ctx.violation("knn-not-exact", reason="crafted instance", got=[int(m.idx) for m in got])
