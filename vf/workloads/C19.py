"""C19 — distance-to-similarity and squashing are monotone, bounded and faithful."""
import math

from vf import oracle
from vf.oracle import inf
from vf.runner import Plan

RULE = ("cases = calls of similarity.distance_to_similarity and similarity.squash on non-negative finite arrays of "
        "every shape 0-D..3-D (zeros, duplicates, a single element, all-equal, large and tiny values) x every method "
        "name (any letter case) x explicit / derived r, a, x0, base x cover_quantile as scalar and as (quantile, value) "
        "x keep_sign (signed inputs). Postconditions (closed-form references evaluated element-wise by the harness): "
        "output shape == input shape; d1 <= d2 implies S(d1) >= S(d2); S(0) is the maximum; default scale keeps S in "
        "[0,1]; the output equals the documented formula evaluated with the reported/explicit parameters; squash is "
        "non-decreasing and inside [0,1] (|.|<=1 with the sign preserved for keep_sign); re-applying with the reported "
        "parameters reproduces the output. non-trivial = >= 3 elements with >= 2 distinct values.")
ASSUME = ["tolerance 1e-9 relative / 1e-12 absolute", "cover_quantile and its target value are inside (0,1)",
          "reciprocal with an explicit r and a cover_quantile: only feasible requests (target value < 1/r)"]
PLAN = Plan("C19", RULE, ASSUME,
            workers={"quick": [("plain", 8, "C19")], "thorough": [("plain", 16, "C19")]},
            deciding=("similarity_calls_checked", "squash_calls_checked", "reapply_checks"))


def f_sim(method, d, r, a):
    if method == "exponential":
        return math.exp(-d / r)
    if method == "gaussian":
        return math.exp(-d * d / (r * r))
    if method == "reciprocal":
        return 1.0 / (r + d * a)
    if method == "reverse":
        return (r - d) / r
    raise ValueError(method)


def f_squash(method, x, r, x0, base):
    b = math.e if base is None else base
    if method == "gaussian":
        return 1 - b ** (-(x * x) / (r * r))
    if method == "exponential":
        return 1 - b ** (-x / r)
    if method == "logistic":
        z = -(x - x0) / r
        if z * math.log(b) > 700:
            return 0.0
        return 1 / (1 + b ** z)
    raise ValueError(method)


def gen_array(rng, np, signed=False):
    shape = rng.choice([(), (1,), (rng.randint(2, 7),), (rng.randint(1, 4), rng.randint(1, 4)), (2, 2, rng.randint(1, 3))])
    if rng.random() < 0.03:
        shape = rng.choice([(rng.randint(100, 600),), (rng.randint(10, 30), rng.randint(10, 30)), (200, 200), (8, 2500), (33000,)])      # scale-up slice (quantiles, outliers, block-wise evaluation)
    n = 1
    for s in shape:
        n *= s
    kind = rng.choice(["mixed", "mixed", "zeros", "equal", "dups", "tiny", "big", "with_zero", "nano"])
    if kind == "zeros":
        vals = [0.0] * n
    elif kind == "equal":
        vals = [rng.choice([0.5, 2.0, 7.25])] * n
    elif kind == "dups":
        pool = [rng.choice([0.0, 0.5, 1.0, 3.0]) for _ in range(2)]
        vals = [rng.choice(pool) for _ in range(n)]
    elif kind == "tiny":
        vals = [rng.random() * 1e-6 for _ in range(n)]
    elif kind == "nano":
        sc_ = rng.choice([1e-9, 1e-12])       # a whole matrix on a very small scale (scaled data): scales are still not zero
        vals = [abs(rng.gauss(0, 3)) * sc_ for _ in range(n)]
    elif kind == "big":
        vals = [rng.random() * 1e4 for _ in range(n)]
    else:
        vals = [abs(rng.gauss(0, 3)) for _ in range(n)]
        if kind == "with_zero" and n:
            vals[rng.randrange(n)] = 0.0
    if signed:
        vals = [v * rng.choice([-1, 1]) for v in vals]
    if kind in ("dups", "mixed") and rng.random() < 0.25:
        vals = [float(int(v)) for v in vals]
        return np.array([int(v) for v in vals], dtype=np.int64).reshape(shape), vals      # integer-typed distances
    return np.array(vals, dtype=float).reshape(shape), vals


def run(ctx):
    import warnings
    import numpy as np
    from dtaidistance import similarity
    rng = ctx.rng
    warnings.simplefilter("ignore")
    N = ctx.scale(8000, 80000)
    for _ in range(N):
        D, vals = gen_array(rng, np)
        method = rng.choice(["exponential", "gaussian", "reciprocal", "reverse"])
        mname = rng.choice([method, method.upper(), method.capitalize()])
        kw = {}
        explicit_r = rng.random() < 0.4
        if explicit_r:
            kw["r"] = rng.choice([0.5, 1.0, 2.0, 10.0, 1, 2, 1e-9, 3e-12])
        if method == "reciprocal" and rng.random() < 0.4:
            kw["a"] = rng.choice([0.5, 1.0, 3.0, 1, 3])
        cq = False
        if rng.random() < 0.3 and (not explicit_r or rng.random() < 0.5) and max(vals) > 0:
            q = rng.choice([0.25, 0.5, 0.8])
            cq = q if rng.random() < 0.5 else (q, rng.choice([0.1, 0.5, 0.9]))
            if np.quantile(D, q) <= 0 and method == "reciprocal":
                cq = False      # the derived slope is a division by the quantile
            if cq is not False and method == "reciprocal" and explicit_r:
                tgt = cq[1] if isinstance(cq, tuple) else 1 - cq
                if tgt * kw["r"] >= 1:
                    cq = False  # infeasible request: 1/(r + D*a) <= 1/r < target for every a >= 0
        if cq is not False:
            kw["cover_quantile"] = cq
        wit = dict(fn="distance_to_similarity", D=np.asarray(D).tolist(), method=mname, kwargs={k: (list(v) if isinstance(v, tuple) else v) for k, v in kw.items()})
        ctx.current(repr(wit))
        try:
            S, r_used = similarity.distance_to_similarity(D, method=mname, return_params=True, **kw)
            S_plain = similarity.distance_to_similarity(D, method=mname, **kw)
        except Exception as e:
            ctx.violation("exception", error=repr(e)[:300], **wit)
            continue
        ctx.count("similarity_calls_checked")
        ctx.case(("sim", method, tuple(vals), repr(sorted(kw.items(), key=str)), D.shape), len(vals) >= 3 and len(set(vals)) >= 2)
        Sa = np.asarray(S, dtype=float)
        bad = None
        sv = Sa.reshape(-1).tolist() if Sa.shape else [float(Sa)]
        if Sa.shape != D.shape:
            bad = "output shape %r differs from input shape %r" % (Sa.shape, D.shape)
        elif any(v != v for v in sv):
            bad = "NaN in the output"
        elif not np.array_equal(np.asarray(S_plain), Sa, equal_nan=True):
            bad = "return_params changes the output"
        elif explicit_r and float(r_used) != float(kw["r"]):
            bad = "an explicitly given r=%r is not the r that is used and reported (%r)" % (kw["r"], float(r_used))
        else:
            order = sorted(range(len(vals)), key=lambda i: vals[i])
            for a_, b_ in zip(order, order[1:]):
                if sv[a_] < sv[b_] - 1e-12 - 1e-9 * abs(sv[b_]):
                    bad = "not non-increasing: S(%r)=%r < S(%r)=%r" % (vals[a_], sv[a_], vals[b_], sv[b_])
                    break
            if bad is None and 0.0 in vals and sv[vals.index(0.0)] < max(sv) - 1e-12:
                bad = "S(0) is not the maximal similarity"
            if bad is None and not kw and (min(sv) < -1e-12 or max(sv) > 1 + 1e-12):
                bad = "default scale leaves [0,1]: min=%r max=%r" % (min(sv), max(sv))
            if bad is None:
                a_used = kw.get("a", 1.0)
                if not (method == "reciprocal" and cq is not False and "a" not in kw):
                    for d, s in zip(vals, sv):
                        try:
                            want = f_sim(method, d, float(r_used), a_used)
                        except (ZeroDivisionError, OverflowError):
                            continue
                        if not oracle.close(s, want, 1e-9, 1e-12):
                            bad = "S(%r)=%r differs from the documented formula value %r (r=%r)" % (d, s, want, float(r_used))
                            break
        if bad:
            ctx.violation("similarity-law", reason=bad, r_reported=float(r_used), output=sv[:12], **wit)
            continue
        # re-apply with the reported parameters
        kw2 = {k: v for k, v in kw.items() if k != "cover_quantile"}
        kw2["r"] = r_used
        try:
            S2 = np.asarray(similarity.distance_to_similarity(D, method=mname, **kw2), dtype=float)
            ctx.count("reapply_checks")
            if not np.allclose(S2, Sa, rtol=1e-12, atol=1e-15, equal_nan=True):
                ctx.violation("reapply-differs", first=sv[:12], second=S2.reshape(-1).tolist()[:12] if S2.shape else [float(S2)],
                              r_reported=float(r_used), method_lower=method, cover_quantile_used=cq is not False,
                              explicit_a="a" in kw, **wit)
        except Exception as e:
            ctx.violation("exception", phase="reapply", error=repr(e)[:300], **wit)
        if len(ctx.samples) < 2 and len(vals) >= 3 and len(set(vals)) >= 2:
            ctx.sample(dict(D=vals, method=method, kwargs=wit["kwargs"], r=float(r_used), S=sv))
    for _ in range(N):
        keep_sign = rng.random() < 0.3
        X, vals = gen_array(rng, np, signed=keep_sign)
        method = rng.choice(["logistic", "gaussian", "exponential"])
        kw = {}
        if rng.random() < 0.4:
            kw["r"] = rng.choice([0.5, 1.0, 2.0, 10.0])
        if rng.random() < 0.3:
            kw["base"] = rng.choice([2.0, 10.0])
        if method == "logistic" and rng.random() < 0.4:
            kw["x0"] = rng.choice([0.0, 1.0, 2.5])
        elif method != "logistic" and rng.random() < 0.15:
            kw["x0"] = rng.choice([0.5, 1.0, 2.5])       # documented as not supported there: must not break the laws
        av = [abs(v) for v in vals]
        cq = False
        if rng.random() < 0.25 and "r" not in kw and max(av) > 0:
            q = rng.choice([0.25, 0.5, 0.8])
            cq = q if rng.random() < 0.5 else (q, rng.choice([0.1, 0.6, 0.9]))
            qv = float(np.quantile(np.abs(X), q))
            x0 = kw.get("x0", float(np.mean(np.abs(X)))) if method == "logistic" else 0.0
            tgt = cq[1] if isinstance(cq, tuple) else cq
            if qv <= 0 or (method == "logistic" and ((qv - x0) == 0 or tgt == 0.5 or ((qv - x0) > 0) != (tgt > 0.5))):
                cq = False
        if cq is not False:
            kw["cover_quantile"] = cq
        if keep_sign:
            kw["keep_sign"] = True
        wit = dict(fn="squash", X=np.asarray(X).tolist(), method=method, kwargs={k: (list(v) if isinstance(v, tuple) else v) for k, v in kw.items()})
        ctx.current(repr(wit))
        try:
            R, r_used, x0_used = similarity.squash(X, method=method, return_params=True, **kw)
        except Exception as e:
            ctx.violation("exception", error=repr(e)[:300], **wit)
            continue
        ctx.count("squash_calls_checked")
        ctx.case(("squash", method, tuple(vals), repr(sorted(kw.items(), key=str)), X.shape), len(vals) >= 3 and len(set(vals)) >= 2)
        Ra = np.asarray(R, dtype=float)
        rv = Ra.reshape(-1).tolist() if Ra.shape else [float(Ra)]
        bad = None
        if Ra.shape != X.shape:
            bad = "output shape %r differs from input shape %r" % (Ra.shape, X.shape)
        elif any(v != v for v in rv):
            bad = "NaN in the output"
        else:
            order = sorted(range(len(vals)), key=lambda i: vals[i])
            for a_, b_ in zip(order, order[1:]):
                if rv[a_] > rv[b_] + 1e-12 + 1e-9 * abs(rv[b_]):
                    bad = "not non-decreasing: f(%r)=%r > f(%r)=%r" % (vals[a_], rv[a_], vals[b_], rv[b_])
                    break
            if bad is None and not keep_sign and (min(rv) < -1e-12 or max(rv) > 1 + 1e-12):
                bad = "output leaves [0,1]: min=%r max=%r" % (min(rv), max(rv))
            if bad is None and keep_sign:
                if any(abs(v) > 1 + 1e-12 for v in rv) or any((x > 0 and v < -1e-15) or (x < 0 and v > 1e-15) for x, v in zip(vals, rv)):
                    bad = "keep_sign: magnitude above 1 or sign not preserved"
            if bad is None and not keep_sign:
                for x, v in zip(vals, rv):
                    try:
                        want = f_squash(method, x, float(r_used), 0.0 if x0_used is None else float(x0_used), kw.get("base"))
                    except (ZeroDivisionError, OverflowError):
                        continue
                    if not oracle.close(v, want, 1e-9, 1e-12):
                        bad = "f(%r)=%r differs from the documented formula value %r (r=%r, x0=%r)" % (x, v, want, float(r_used), x0_used)
                        break
        if bad:
            ctx.violation("squash-law", reason=bad, output=rv[:12], **wit)
            continue
        kw2 = {k: v for k, v in kw.items() if k != "cover_quantile"}
        kw2["r"] = r_used
        if method == "logistic":
            kw2["x0"] = x0_used
        try:
            R2 = np.asarray(similarity.squash(X, method=method, **kw2), dtype=float)
            ctx.count("reapply_checks")
            if not np.allclose(R2, Ra, rtol=1e-12, atol=1e-15, equal_nan=True):
                ctx.violation("reapply-differs", first=rv[:12], second=R2.reshape(-1).tolist()[:12] if R2.shape else [float(R2)], **wit)
        except Exception as e:
            ctx.violation("exception", phase="reapply", error=repr(e)[:300], **wit)
