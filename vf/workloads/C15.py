"""C15 — hierarchical clustering: a partition built from monotone, bounded merges."""
from vf import dtwmon, gen, monitors, oracle
from vf.oracle import inf
from vf.runner import Plan

RULE = ("cases = fits of Hierarchical, HierarchicalTree and LinkageTree on 2..14 series (duplicates, exact ties, "
        "unequal lengths; max_step settings that produce infinite distances) x max_dist in {below the minimum, "
        "between, above the maximum, inf} x weight/order hooks from clustering.Hooks x distance-matrix function "
        "(Python, C) x repeated fit on the same object. The API's own merge_hook is the trace point: every merge "
        "event (from, to, distance) is checked online against the distance matrix the model used (captured by "
        "wrapping dists_fun): both ends alive, distance equals the matrix entry, is the minimum over all alive "
        "pairs, never decreases, never exceeds max_dist. Postconditions: clusters partition all indices, each key is "
        "a member, termination only when no alive pair is within max_dist; tree: n-1 merges, every node 0..2n-3 a "
        "child exactly once, acyclic, counts; LinkageTree == scipy.cluster.hierarchy.linkage of independently "
        "condensed distances; second fit == fresh object. non-trivial = >= 3 series and at least one merge.")
ASSUME = ["tree claims are only checked when all pairwise distances are finite (otherwise the code documents that no "
          "single tree exists)", "weight hooks mutate their weights list: a fresh hook is created per fit"]
PLAN = Plan("C15", RULE, ASSUME,
            workers={"quick": [("plain", 16, "C15")], "thorough": [("plain", 16, "C15")]},
            deciding=("fits_checked", "merge_events_checked", "trees_checked", "linkage_vs_scipy_checked",
                      "repeated_fits_checked"),
            crash_is_violation=True)


def run(ctx):
    import numpy as np
    from dtaidistance import dtw
    from dtaidistance.clustering import hierarchical as H
    from scipy.cluster.hierarchy import linkage as sp_linkage
    rng = ctx.rng
    N = ctx.scale(900, 12000)
    for it in range(N):
        n = rng.randint(2, 14)
        if it % 60 == 13:
            n = rng.randint(18, 40)      # scale-up slice: more merges, more ties
            ctx.count("large_collections")
        kind = rng.choice(["alpha", "dyadic", "gauss"])
        equal = rng.random() < 0.5
        n0 = rng.randint(1, 6)
        ss = [gen.series(rng, n0 if equal else rng.randint(1, 6), kind) for _ in range(n)]
        scale = rng.choice([1.0, 1.0, 1.0, 1e-9, 1e-4])     # tiny magnitudes: distances far below absolute tolerances
        if scale != 1.0:
            ss = [[v * scale for v in s_] for s_ in ss]
        if n >= 3 and rng.random() < 0.5:
            ss[rng.randrange(n)] = list(ss[rng.randrange(n)])
        data = [np.array(s) for s in ss]
        opts = {}
        if rng.random() < 0.4:
            opts["window"] = rng.randint(1, 6)
        if rng.random() < 0.2:
            opts["max_step"] = rng.choice([1.0, 2.0])       # produces infinite distances
        use_c = rng.random() < 0.5
        # a layout request inside the caller's options must not matter: the model decides how it reads the matrix
        mopts = dict(opts)
        lay = rng.choice([None, None, False, True])
        if lay is not None:
            mopts["only_triu"] = lay
            ctx.count("fits_with_only_triu_in_options:%s" % lay)
        captured = {}

        def dists_fun(series, **kw):
            m = dtw.distance_matrix(series, use_c=use_c, **kw)
            captured["D"] = np.array(m, copy=True)
            captured["kw"] = dict(kw)
            return m
        with monitors.quiet():
            Dfull = np.asarray(dtw.distance_matrix(data, use_c=False, **opts))
        fin = sorted(set(float(v) for v in Dfull[np.triu_indices(n, 1)] if v != inf))
        choices = [inf]
        if fin:
            choices += [fin[0] * 0.5, fin[-1] * 2 + 1, rng.choice(fin) * rng.choice([1.0, 1.0001, 0.9999])]
        max_dist = rng.choice(choices)
        hook_kind = rng.choice(["none", "none", "weight", "order", "both"])
        variant = rng.choice(["flat", "flat", "tree", "tree_kwargs"])
        wit = dict(series=ss, options=mopts, use_c=use_c, max_dist=max_dist, hooks=hook_kind, variant=variant)

        def build():
            events = []
            alive = set(range(n))
            state = {"last": -inf, "bad": None}
            weights = [1.0 + (i % 3) for i in range(n)]
            wh = H.Hooks.create_weighthook(list(weights), data) if hook_kind in ("weight", "both") else None
            oh = H.Hooks.create_orderhook(list(weights)) if hook_kind in ("order", "both") else None

            def merge_hook(frm, to, dist):
                res = wh(frm, to, dist) if wh else None
                # a keeps, b is deleted; HierarchicalTree wraps the hook and drops its return value
                a, b = (res if (res and not variant.startswith("tree")) else (to, frm))
                a, b = int(a), int(b)
                D = captured.get("D")
                ctx.count("merge_events_checked")
                ev = dict(keep=a, delete=b, distance=float(dist))
                if state["bad"] is None and D is not None:
                    if a not in alive or b not in alive or a == b:
                        state["bad"] = "merge of a series that is not an alive prototype"
                    else:
                        lo, hi = min(a, b), max(a, b)
                        if not oracle.close(float(D[lo, hi]), float(dist)):
                            state["bad"] = "merge distance is not the matrix entry of the two prototypes"
                        best = min((float(D[min(x, y), max(x, y)]) for x in alive for y in alive if x < y), default=inf)
                        if float(dist) > best * (1 + 1e-12) + 1e-15:
                            state["bad"] = "merge is not the closest pair of alive prototypes"
                        if float(dist) < state["last"] * (1 - 1e-12) - 1e-15:
                            state["bad"] = "merge distances decrease"
                        if float(dist) > self_max[0]:
                            state["bad"] = "merge above max_dist"
                    if state["bad"]:
                        ev["problem"] = state["bad"]
                state["last"] = max(state["last"], float(dist))
                alive.discard(b)
                events.append(ev)
                return res
            self_max = [max_dist]
            model = H.Hierarchical(dists_fun, dict(mopts), max_dist=max_dist, merge_hook=merge_hook, order_hook=oh,
                                   show_progress=False)
            if variant == "tree":
                tree = H.HierarchicalTree(model)
                self_max[0] = inf       # the tree variant resets max_dist (documented)
                return tree, events, alive, state
            if variant == "tree_kwargs":
                tree = H.HierarchicalTree(dists_fun=dists_fun, dists_options=dict(mopts), max_dist=max_dist,
                                          merge_hook=merge_hook, order_hook=oh, show_progress=False)
                self_max[0] = inf
                return tree, events, alive, state
            return model, events, alive, state

        ctx.current("fit %r" % (wit,))
        try:
            model, events, alive, state = build()
            # termination as a logical bound: at most n - 1 merges, each scanning an n x n matrix a few times
            with monitors.step_bound([H.Hierarchical.fit.__code__], 4000 + 600 * n * n):
                res = model.fit(data)
        except monitors.StepLimit as e:
            ctx.violation("hierarchical-invariant", reason="no termination: " + str(e), **wit)
            continue
        except Exception as e:
            ctx.violation("exception", fn="fit", error=repr(e)[:300], **wit)
            continue
        ctx.count("fits_checked")
        ctx.case(("fit", repr(ss), dtwmon.settings_key(opts), use_c, max_dist, hook_kind, variant), n >= 3 and len(events) >= 1)
        eff_max = inf if variant.startswith("tree") else max_dist
        D = captured.get("D")
        bad = state["bad"]
        members = sorted(i for v in res.values() for i in v)
        if bad is None and members != list(range(n)):
            bad = "clusters are not a partition of all indices"
        if bad is None and any(k not in v for k, v in res.items()):
            bad = "a cluster key is not a member of its cluster"
        if bad is None and set(res.keys()) != alive:
            bad = "cluster keys are not the surviving prototypes"
        if bad is None and D is not None:
            rest = sorted(alive)
            close_pairs = [(a, b, float(D[a, b])) for i, a in enumerate(rest) for b in rest[i + 1:]
                           if D[a, b] != inf and float(D[a, b]) <= eff_max * (1 - 1e-12)]
            if close_pairs:
                bad = "stopped although prototypes %r are within max_dist" % (close_pairs[:2],)
        if bad is None and len(events) != n - len(alive):
            bad = "number of merges does not match the number of removed prototypes"
        if bad:
            ctx.violation("hierarchical-invariant", reason=bad, clusters={str(k): sorted(v) for k, v in res.items()},
                          events=events, **wit)
            continue
        # tree well-formedness
        if variant.startswith("tree") and D is not None and np.all(np.isfinite(D[np.triu_indices(n, 1)])):
            Z = list(model.linkage)
            ctx.count("trees_checked")
            problem = None
            if len(Z) != n - 1:
                problem = "%d merges instead of n-1=%d" % (len(Z), n - 1)
            else:
                children = [int(z[0]) for z in Z] + [int(z[1]) for z in Z]
                if sorted(children) != list(range(2 * n - 2)):
                    problem = "not every node 0..2n-3 is a child exactly once"
                elif any(int(z[0]) >= n + k or int(z[1]) >= n + k for k, z in enumerate(Z)):
                    problem = "a merge refers to a node created later (cycle)"
                elif any(Z[k][2] > Z[k + 1][2] * (1 + 1e-12) + 1e-15 for k in range(len(Z) - 1)):
                    problem = "linkage distances decrease"
            if problem:
                ctx.violation("tree-malformed", reason=problem, linkage=[list(map(float, z)) for z in Z], **wit)
        # repeated fit on the same object == fresh object
        if hook_kind == "none":
            try:
                res2 = model.fit(data)
                m3, _, _, _ = build()
                res3 = m3.fit(data)
                ctx.count("repeated_fits_checked")
                if variant.startswith("tree") and len(model.linkage) != len(m3.linkage):
                    ctx.violation("tree-malformed", reason="linkage of a repeated fit has %d rows, a fresh object %d"
                                  % (len(model.linkage), len(m3.linkage)), **wit)
                if res2 != res3 or res2 != res:
                    ctx.violation("history-dependence", first={str(k): sorted(v) for k, v in res.items()},
                                  second={str(k): sorted(v) for k, v in res2.items()},
                                  fresh={str(k): sorted(v) for k, v in res3.items()}, **wit)
            except Exception as e:
                ctx.violation("exception", fn="fit(repeated)", error=repr(e)[:300], **wit)
        # a tree over a model without any user hook, fitted repeatedly (and on a shorter collection in between): every
        # linkage must equal that of a fresh object, and the wrapped model must stay usable on its own
        if rng.random() < 0.3:
            try:
                t1 = H.HierarchicalTree(dists_fun=dists_fun, dists_options=dict(mopts), show_progress=False)
                hist_ = [data, data[:max(2, n - 1)], data] if rng.random() < 0.5 else [data, data]
                for hi_, d_ in enumerate(hist_):
                    c1 = t1.fit(d_)
                    t2 = H.HierarchicalTree(dists_fun=dists_fun, dists_options=dict(mopts), show_progress=False)
                    c2 = t2.fit(d_)
                    ctx.count("hookless_tree_refits_checked")
                    l1_, l2_ = [tuple(map(float, z)) for z in t1.linkage], [tuple(map(float, z)) for z in t2.linkage]
                    if l1_ != l2_ or c1 != c2:
                        ctx.violation("history-dependence", reason="fit number %d on a hook-less HierarchicalTree differs from a fresh "
                                      "object" % (hi_ + 1), linkage=[list(z) for z in l1_], fresh_linkage=[list(z) for z in l2_], **wit)
                        break
                    if len(l1_) > len(d_) - 1 or len({int(z[k_]) for z in l1_ for k_ in (0, 1)}) != 2 * len(l1_):
                        ctx.violation("tree-malformed", reason="a node is a child twice or more than n-1 merges (hook-less tree, fit %d)"
                                      % (hi_ + 1), linkage=[list(z) for z in l1_], **wit)
                        break
            except Exception as e:
                ctx.violation("exception", fn="HierarchicalTree(hook-less).fit repeated", error=repr(e)[:300], **wit)
        if len(ctx.samples) < 2 and len(events) >= 2:
            ctx.sample(dict(series=ss, max_dist=max_dist, hooks=hook_kind, events=events,
                            clusters={str(k): sorted(v) for k, v in res.items()}))
        # LinkageTree vs SciPy
        if n >= 2 and np.all(np.isfinite(Dfull[np.triu_indices(n, 1)])):
            method = rng.choice(["complete", "single", "average", "ward"])
            try:
                lt = H.LinkageTree(lambda s, **kw: dtw.distance_matrix(s, use_c=use_c, **kw), dict(mopts), method=method)
                Z = np.asarray(lt.fit(data))
                cond = np.array([Dfull[a, b] for a in range(n) for b in range(a + 1, n)])
                Zs = sp_linkage(cond, method=method, metric="euclidean")
                ctx.count("linkage_vs_scipy_checked")
                if Z.shape != Zs.shape or not np.allclose(Z, Zs, rtol=1e-9, atol=1e-12):
                    ctx.violation("linkage-differs-from-scipy", method=method, got=Z.tolist(), scipy=Zs.tolist(), **wit)
            except Exception as e:
                ctx.violation("exception", fn="LinkageTree.fit", error=repr(e)[:300], **wit)
