"""C03 — early abandoning (max_dist, use_pruning) never changes a result."""
from vf import dtwmon, gen, monitors, oracle
from vf.oracle import inf
from vf.runner import Plan

RULE = ("cases = calls of distance / distance_fast / dtw_cc.distance(_ndim) / warping_paths(_fast) / "
        "distance_matrix(_fast) with max_dist and/or use_pruning, each re-executed by a relational "
        "postcondition on the same engine without them: finite results must equal the unbounded value, "
        "results above the threshold must be inf, below must be unchanged; matrices cell by cell. "
        "Thresholds per case: d(1-1e-3), d(1+1e-3), d/2, 2d, 1e-9, 1e9 and the Euclidean bound itself "
        "(use_pruning); series include DTW==Euclidean constructions (monotone/equal length, length-1 series) "
        "and long flat prefixes; crossing window x psi x penalty x inner distance x ndim x engine. "
        "non-trivial = unbounded distance finite, non-zero, both lengths >= 2.")
ASSUME = ["thresholds are kept outside a 1e-6 relative neighbourhood of the unbounded distance",
          "use_pruning where the Euclidean distance is not a valid upper bound (max_step; penalty with unequal "
          "lengths) is judged too (repaired defect 11c8f86, formerly known finding KF-C03-1)", "C vs C and Python vs Python comparisons (no cross-engine oracle)"]
def _own_suite(tier, seed, scratch):
    """thorough: the repository's own unedited tests are one more workload under this property's monitors"""
    if tier != "thorough":
        return None, None, None
    from vf import ownsuite
    return ownsuite.run(scratch, "c03", "C03")


PLAN = Plan("C03", RULE, ASSUME, native=_own_suite,
            workers={"quick": [("plain", 16, "C03")], "thorough": [("plain", 13, "C03"), ("asan", 3, "C03")]},
            deciding=("c03_relational_checks", "c03_pruning_checks", "c03_matrix_cells_checked",
                      "reach:python_pruning_break"),
            crash_is_violation=True)


def thresholds(rng, d, full=False):
    out = []
    if d not in (0, inf):
        out += [d * (1 - 1e-3), d * (1 + 1e-3), d / 2, 2 * d]
    out += [1e-9, 1e9, 0.5, 3.0, 0.05, 0.3]
    return out if full else [rng.choice(out), rng.choice(out[:4] or out)]


def check_matrix(ctx, fname, eng, s1, s2, kw, m, pr, keep, wp, ival):
    """warping_paths with a bound vs without: d law + cell law"""
    kw0 = dict(kw)
    kwb = dict(kw)
    if m is not None:
        kwb["max_dist"] = m
    if pr:
        kwb["use_pruning"] = True
    try:
        d0, M0 = wp(s1, s2, psi_neg=False, keep_int_repr=keep, **kw0)
        d1, M1 = wp(s1, s2, psi_neg=False, keep_int_repr=keep, **kwb)
    except Exception as e:
        ctx.violation("exception", fn=fname, s1=dtwmon.tolist(s1), s2=dtwmon.tolist(s2),
                      settings=dict(dtwmon.settings_key(kwb)), error=repr(e)[:300])
        return
    d0, d1 = float(d0), float(d1)
    # effective bound in the domain of the returned numbers
    import numpy as np
    from dtaidistance import ed
    bound = inf
    ub = None
    if m is not None:
        bound = ival(m) if keep else m
    if pr:
        ub = float(ed.distance(s1, s2, inner_dist=kw.get("inner_dist", "squared euclidean"),
                               use_ndim=kw.get("use_ndim", False)))
        bound = min(bound, ival(ub) if keep else ub)
    mext = m
    ctx.count("c03_matrix_checks")
    l1, l2 = dtwmon.tolist(s1), dtwmon.tolist(s2)
    wit = dict(fn=fname, s1=l1, s2=l2, settings=dict(dtwmon.settings_key(kwb)), keep_int_repr=keep,
               pruning_bound_is_not_a_path_cost=bool(pr and not dtwmon.valid_ub_domain(kw, len(l1), len(l2))),
               euclidean_bound=ub)
    ctx.case((fname, dtwmon.flat(l1), dtwmon.flat(l2), dtwmon.settings_key(kwb), keep), d0 not in (0, inf))
    # distance law (the returned d is cut by the explicit max_dist only)
    dcut = (ival(m) if keep else m) if m is not None else None
    if dcut is not None and dtwmon.near_threshold(d0, dcut, 1e-6):
        pass
    elif dcut is not None and d0 > dcut:
        if d1 != inf:
            ctx.violation("finite-above-threshold", with_bound=d1, without=d0, **wit)
    elif not dtwmon.engines_agree(d1, d0):
        ctx.violation("changed-below-threshold" if d1 != inf else "lost-below-threshold",
                      with_bound=d1, without=d0, **wit)
    # cell law
    if M0.shape != M1.shape:
        ctx.violation("matrix-shape", got=list(M1.shape), want=list(M0.shape), **wit)
        return
    A, B = M0.tolist(), M1.tolist()
    for i in range(1, len(A)):
        for j in range(1, len(A[0])):
            v0, v1 = A[i][j], B[i][j]
            ctx.count("c03_matrix_cells_checked")
            if v0 <= bound * (1 - 1e-9):
                if not dtwmon.engines_agree(v1, v0):
                    ctx.violation("cell-changed-below-bound", cell=[i, j], with_bound=v1, without=v0,
                                  bound=bound, **wit)
                    return
            elif v0 > bound * (1 + 1e-9):
                if not (v1 == inf or v1 > bound * (1 - 1e-9)):
                    ctx.violation("cell-finite-below-bound", cell=[i, j], with_bound=v1, without=v0,
                                  bound=bound, **wit)
                    return


def run(ctx):
    import sys
    import numpy as np
    from dtaidistance import dtw, dtw_ndim, dtw_cc, innerdistance
    rng = ctx.rng
    py_dist = dtw.distance
    # reach counter: has the PrunedDTW break in the pure-Python kernel been executed?
    import inspect
    src, first = inspect.getsourcelines(dtw.distance)
    break_lines = {first + k for k, line in enumerate(src) if line.strip() == "break"}
    sc_lines = {first + k for k, line in enumerate(src) if line.strip() == "j_start = sc"}
    code = dtw.distance.__code__
    mon = sys.monitoring
    TOOL = mon.DEBUGGER_ID
    try:
        mon.use_tool_id(TOOL, "vf-reach")

        def on_line(c, ln):
            if ln in break_lines:
                ctx.count("reach:python_pruning_break")
            elif ln in sc_lines:
                ctx.count("reach:python_start_column_skipped")
            return None
        mon.register_callback(TOOL, mon.events.LINE, on_line)
        mon.set_local_events(TOOL, code, mon.events.LINE)
    except Exception as e:  # pragma: no cover
        ctx.notes["reach_error"] = repr(e)

    def pyd(s1, s2, **kw):
        kw.pop("use_c", None)
        return py_dist(s1, s2, use_c=False, **kw)

    cfast = dtw.distance_fast
    monitors.attach(ctx, dtw, "distance", dtwmon.c03_distance_post(ctx, pyd, "dtw.distance"))
    monitors.attach(ctx, dtw, "distance_fast", dtwmon.c03_distance_post(ctx, cfast, "dtw.distance_fast"))

    def run_case(s1, s2, kw, nd):
        r, c = len(s1), len(s2)
        if nd:
            kw = dict(kw, use_ndim=True)
        kw0 = {k: v for k, v in kw.items()}
        with monitors.quiet():
            try:
                d0 = float(pyd(s1, s2, **kw0))
            except Exception as e:
                ctx.violation("exception", fn="dtw.distance", s1=dtwmon.tolist(s1), s2=dtwmon.tolist(s2),
                              settings=dict(dtwmon.settings_key(kw0)), error=repr(e)[:300])
                return
        prs = [False, True] if (dtwmon.valid_ub_domain(kw, r, c) or rng.random() < 0.25) else [False]
        for m in thresholds(rng, d0, full=not ctx.quick and rng.random() < 0.3) + [None]:
            for pr in prs:
                if m is None and not pr:
                    continue
                kwb = dict(kw)
                if m is not None:
                    kwb["max_dist"] = m
                if pr:
                    kwb["use_pruning"] = True
                ctx.current("case %r %r %r" % (dtwmon.tolist(s1), dtwmon.tolist(s2), kwb))
                for eng, f in (("py", dtw.distance), ("c", dtw.distance_fast)):
                    try:
                        f(s1, s2, **kwb)
                    except Exception as e:
                        ctx.violation("exception", fn="dtw.distance" + ("_fast" if eng == "c" else ""),
                                      s1=dtwmon.tolist(s1), s2=dtwmon.tolist(s2),
                                      settings=dict(dtwmon.settings_key(kwb)), error=repr(e)[:300])
        # matrices
        if rng.random() < 0.5:
            m = rng.choice(thresholds(rng, d0) + [None])
            pr = (rng.random() < 0.5 and len(prs) > 1) or m is None and len(prs) > 1
            if m is None and not pr:
                return
            keep = rng.random() < 0.4
            inn = dtwmon.inner_of(kw)
            for eng, wp in (("py", dtw.warping_paths), ("c", dtw.warping_paths_fast)):
                ctx.current("matrix %s %r %r %r m=%r pr=%r keep=%r" % (eng, dtwmon.tolist(s1), dtwmon.tolist(s2), kw, m, pr, keep))
                check_matrix(ctx, "dtw.warping_paths" + ("_fast" if eng == "c" else ""), eng, s1, s2, kw, m, pr,
                             keep, wp, inn.ival)

    N = ctx.scale(3500, 40000)
    for it in range(N):
        r, c = rng.randint(1, 12), rng.randint(1, 12)
        x = rng.random()
        nd = rng.choice([0, 0, 0, 1, 2])
        if x < 0.3:
            c = r
        kind = rng.choice([None, "alpha", "dyadic", "mono", "flat", "gauss", "small", "small"])
        if nd:
            s1, s2 = np.array(gen.series_nd(rng, r, nd, kind)), np.array(gen.series_nd(rng, c, nd, kind))
        else:
            s1, s2 = np.array(gen.series(rng, r, kind)), np.array(gen.series(rng, c, kind))
            if x > 0.85:
                # DTW == Euclidean constructions
                r = c
                base = sorted(gen.series(rng, r, "dyadic"))
                s1 = np.array(base)
                s2 = np.array([v + rng.choice([0.3, 1.7, 0.1 * rng.random()]) for v in base])
            elif x > 0.8:
                s1 = np.array([rng.gauss(0, 1)])
                r = 1
            elif x > 0.72:
                # unequal lengths with DTW == Euclidean: the longer series ends in a plateau at the last value of the shorter
                base = gen.series(rng, r, "dyadic")
                other = [v + rng.choice([0.0, 0.5, 0.25]) for v in base[:-1]] + [base[-1]]
                s1 = np.array(base)
                s2 = np.array(other + [base[-1]] * rng.randint(1, 4))
                c = len(s2)
        kw = gen.rand_settings(rng, r, c, with_mld=False)
        if rng.random() < 0.5:
            kw.pop("max_step", None)
        ctx.count("base_cases")
        run_case(s1, s2, kw, nd)
    # scale-up slice: pruning matters on long series (start/end column bookkeeping over many rows)
    for _ in range(ctx.scale(50, 500)):
        r = rng.randint(20, 120)
        c = r if rng.random() < 0.4 else max(2, r + rng.choice([-1, 1]) * rng.randint(1, 30))
        s1, s2 = np.array(gen.structured_series(rng, r)), np.array(gen.structured_series(rng, c))
        kw = gen.rand_settings(rng, r, c, with_mld=False)
        if kw.get("window"):
            kw["window"] = rng.choice([1, 2, 5, abs(r - c) + 1, max(r, c) // 2, max(r, c)]) or 1
        if rng.random() < 0.5:
            kw.pop("max_step", None)
        ctx.count("long_series_cases")
        run_case(s1, s2, kw, 0)
    # distance matrices with bounds, both engines, vs without
    M = ctx.scale(200, 2500)
    for _ in range(M):
        k = rng.randint(2, 8)
        equal = rng.random() < 0.6
        n0 = rng.randint(1, 8)
        ss = [np.array(gen.series(rng, n0 if equal else rng.randint(1, 8))) for _ in range(k)]
        kw = gen.rand_settings(rng, 2, 2, with_mld=False)
        kw.pop("psi", None)
        kw.pop("max_step", None)
        if rng.random() < 0.35:
            # psi-relaxed distances are not bounded from below by LB_Keogh-like shortcuts: thresholds must still be exact
            kw["psi"] = rng.randint(1, max(1, min(len(x_) for x_ in ss) - 1)) if min(len(x_) for x_ in ss) >= 2 else 0
        if equal and rng.random() < 0.5:
            ss = np.array([x_.tolist() for x_ in ss])       # the same collection as one 2-D array (other C routine)
            ctx.count("matrices_as_2d_array")
        if not equal:
            kw.pop("penalty", None)
            if rng.random() < 0.4:
                # pairs that are skipped because of their lengths must not disturb the bound of the pairs after them
                kw["max_length_diff"] = rng.choice([1, 2, 3])
                ctx.count("matrices_with_max_length_diff")
        par = rng.random() < 0.25       # the OpenMP route shares one settings structure between the threads
        for use_c in (False, True):
            with monitors.quiet():
                base = dtw.distance_matrix(ss, compact=True, use_c=use_c, **kw)
            fin = [v for v in base if v not in (0, inf)]
            m = rng.choice([None] + ([rng.choice(fin) * rng.choice([0.999, 1.001, 0.5])] if fin else [1.0]))
            pr = rng.random() < 0.5 or m is None
            kwb = dict(kw)
            if m is not None:
                kwb["max_dist"] = m
            if pr:
                kwb["use_pruning"] = True
            ctx.current("dm use_c=%s %r %r" % (use_c, [s.tolist() for s in ss], kwb))
            try:
                with monitors.quiet():
                    got = dtw.distance_matrix(ss, compact=True, use_c=use_c, parallel=bool(use_c and par), **kwb)
                    if use_c and par:
                        ctx.count("matrices_openmp")
            except Exception as e:
                ctx.violation("exception", fn="dtw.distance_matrix", use_c=use_c, error=repr(e)[:300],
                              settings=dict(dtwmon.settings_key(kwb)))
                continue
            for idx, (v0, v1) in enumerate(zip(base, got)):
                ctx.count("c03_matrix_entries_checked")
                if m is not None and dtwmon.near_threshold(v0, m, 1e-6):
                    continue
                bad = None
                if m is not None and v0 > m:
                    if v1 != inf:
                        bad = "finite-above-threshold"
                elif not dtwmon.engines_agree(v1, v0):
                    bad = "changed-below-threshold"
                if bad:
                    ctx.violation(bad, fn="dtw.distance_matrix(use_c=%s)" % use_c, entry=idx,
                                  series=[list(map(float, s)) for s in ss], settings=dict(dtwmon.settings_key(kwb)),
                                  with_bound=float(v1), without=float(v0))
