"""C13 — subsequence-alignment matching function = best DTW over all start points."""
from vf import dtwmon, gen, monitors, oracle
from vf.oracle import inf
from vf.runner import Plan

RULE = ("cases = SubsequenceAlignment objects (query 1..6 points, series 1..L points, penalty in {0,.1,.5,1}, ndim "
        "1..2, Python and C engine). Postconditions: matching_function()[e] == min_b ref_dtw(query, series[b..e], "
        "penalty)/len(query) by brute force over all b with the reference DP; best_match's path is a valid warping "
        "path of query vs series[segment] whose cost realises its value; kbest_matches streams are monitored match "
        "by match (distinct end points, non-decreasing values, minlength/maxlength respected, pairwise overlap of "
        "segments <= 1 sample when overlap=0); Python == C; histories: two or three generators on one object "
        "advanced in random interleavings with reset() in between, each compared with a generator of a fresh "
        "object. non-trivial = len(query) >= 2 and len(series) > len(query).")
ASSUME = ["tolerance 1e-9", "class invariant: once aligned, matching has len(series) entries"]
PLAN = Plan("C13", RULE, ASSUME,
            workers={"quick": [("plain", 16, "C13")], "thorough": [("plain", 13, "C13"), ("asan", 3, "C13")]},
            deciding=("matching_entries_checked", "best_match_paths_checked", "kbest_streams_checked",
                      "engine_comparisons", "history_interleavings_checked"),
            crash_is_violation=True)


def brute_matching(q, s, penalty, nd):
    out = []
    for e in range(len(s)):
        best = inf
        for b in range(e + 1):
            d = oracle.ref_distance(q, s[b:e + 1], penalty=penalty, ndim=bool(nd))
            if d < best:
                best = d
        out.append(best / len(q))
    return out


def seg_overlap(a, b):
    return max(0, min(a[1], b[1]) - max(a[0], b[0]) + 1)


def run(ctx):
    import numpy as np
    import icontract
    from dtaidistance.subsequence import subsequencealignment as sa_mod
    monitors.guard_backtracking(ctx)      # bounded progress for every back-tracking call, wherever it is made
    dtw_cc = sa_mod.dtw_cc
    from dtaidistance.subsequence.subsequencealignment import SubsequenceAlignment, subsequence_alignment
    rng = ctx.rng

    # class invariant attached to the real class from the harness
    inv_count = {"n": 0}

    def matching_has_series_length(self):
        inv_count["n"] += 1
        if self.matching is not None and len(self.matching) != len(self.series):
            ctx.violation("invariant-matching-length", got=len(self.matching), want=len(self.series))
        return True
    Mon = icontract.invariant(matching_has_series_length)(SubsequenceAlignment)

    L = 14 if ctx.quick else 25
    N = ctx.scale(1500, 15000)
    for it in range(N):
        r = rng.randint(1, 6)
        c = rng.randint(1, L)
        nd = rng.choice([0, 0, 0, 1, 2])
        kind = rng.choice(["alpha", "dyadic", "gauss"])
        long_case = it % 25 == 7
        if long_case:
            # scale-up slice: long structured series (repeated occurrences, constant runs), longer queries
            r, c, nd = rng.randint(2, 12), rng.randint(30, 90), 0
            q, s = gen.structured_series(rng, r), gen.structured_series(rng, c)
            ctx.count("long_series_cases")
        elif nd:
            q, s = gen.series_nd(rng, r, nd, kind), gen.series_nd(rng, c, nd, kind)
        else:
            q, s = gen.series(rng, r, kind), gen.series(rng, c, kind)
            if rng.random() < 0.3 and c > r:       # plant the query
                k = rng.randrange(c - r + 1)
                s[k:k + r] = [v + rng.choice([0, 0.01]) for v in q]
        if not nd and not long_case and it % 12 == 5:
            # several occurrences of the query that differ only very slightly in quality (relative 1e-9 .. 1e-7), the better
            # ones later in the series: the iterator must still hand them out best-first
            r = rng.randint(2, 4)
            q = [0.0] + [rng.choice([1000.0, 500.0, 250.0]) for _ in range(r - 2)] + [0.0] if r > 2 else [0.0, 1000.0]
            base_ = rng.choice([300.0, 120.0])
            ncp = rng.randint(2, 4)
            offs_ = sorted([rng.choice([0.9e-5, 1.8e-5, 2.7e-5, 3.6e-5, 0.0]) for _ in range(ncp)], reverse=True)
            s = [9000.0] * rng.randint(2, 4)
            for e_ in offs_:
                s += [q[0] + base_ + e_] + [v_ + base_ for v_ in q[1:]] + [9000.0] * rng.randint(2, 4)
            c = len(s)
            ctx.count("near_tie_occurrence_cases")
        penalty = rng.choice([0, 0.1, 0.5, 1.0])
        qa, sa_ = np.array(q, dtype=float), np.array(s, dtype=float)
        # the same numeric content in non-contiguous views (C20: results must not depend on the layout)
        layout = rng.choice(["contig", "contig", "strided", "column", "reversed"])
        if nd and nd >= 2 and rng.random() < 0.4:
            layout = "column-major"       # the .T view of a channels x time recording, or an explicit Fortran copy
        if layout == "column-major":
            if rng.random() < 0.5:
                sa_, qa = np.asfortranarray(sa_), (np.asfortranarray(qa) if rng.random() < 0.6 else qa)
            else:
                sa_, qa = np.ascontiguousarray(sa_.T).T, (np.ascontiguousarray(qa.T).T if rng.random() < 0.6 else qa)
            ctx.count("column_major_multivariate_cases")
        elif layout == "strided":
            big = np.repeat(sa_, 2, axis=0)
            big[1::2] = 1e6
            sa_ = big[::2]
            bq = np.repeat(qa, 3, axis=0)
            bq[1::3] = -1e6
            qa = bq[::3]
        elif layout == "column" and not nd:
            sa_ = np.asfortranarray(np.array([s, [5e5] * c], dtype=float).T)[:, 0] if False else np.array([s, [5e5] * c], dtype=float).T[:, 0]
        elif layout == "reversed":
            sa_ = np.array(list(reversed(s)), dtype=float)[::-1]
        wit = dict(query=q, series=s, penalty=penalty, ndim=nd, layout=layout)
        if long_case:
            # O(len(q) * len(s)) reference: one DP whose start is free anywhere in the series
            inn_ = oracle.INNER[("squared euclidean", False)]
            bm_ = oracle.ref_matrix(q, s, None, inn_.ival(penalty) if penalty else 0.0, (0, 0, len(s), len(s)), inf, inn_.dist)
            ref = [(inn_.result(v_) / len(q) if v_ != inf else inf) for v_ in bm_[len(q) - 1]]
        else:
            ref = brute_matching(q, s, penalty, nd)
        got = {}
        for use_c in (False, True):
            ctx.current("align use_c=%s %r" % (use_c, wit))
            try:
                if rng.random() < 0.3:
                    a = subsequence_alignment(qa, sa_, penalty=penalty, use_c=use_c)     # documented helper
                    ctx.count("built_through_helper")
                else:
                    a = Mon(qa, sa_, penalty=penalty, use_c=use_c)
                    a.align()
                mf = [float(v) for v in a.matching_function()]
            except Exception as e:
                ctx.violation("exception", fn="SubsequenceAlignment.align", use_c=use_c, error=repr(e)[:300], **wit)
                continue
            got[use_c] = (a, mf)
            ctx.case(("sa", use_c, nd, repr(q), repr(s), penalty), r >= 2 and c > r)
            if len(mf) != c:
                ctx.violation("matching-length", use_c=use_c, got=len(mf), want=c, **wit)
                continue
            for e in range(c):
                ctx.count("matching_entries_checked")
                if not oracle.close(mf[e], ref[e]):
                    ctx.violation("matching-function-entry", use_c=use_c, end=e, got=mf[e], want=ref[e], **wit)
                    break
            # best match: value, segment, path
            try:
                m = a.best_match()
                path = [(int(i), int(j)) for i, j in m.path]
                b, e = [int(x) for x in m.segment]
                ctx.count("best_match_paths_checked")
                val = float(m.value)
                if not oracle.close(val, min(ref)):
                    ctx.violation("best-match-value", use_c=use_c, got=val, want=min(ref), **wit)
                sub = [(i, j - b) for i, j in path]
                reason = None
                if not path or path[0][1] != b or path[-1][1] != e or e != int(m.idx):
                    reason = "segment %r inconsistent with path ends %r..%r / idx %r" % ([b, e], path[:1], path[-1:], int(m.idx))
                else:
                    reason = oracle.validate_path(sub, r, e - b + 1, None, (0, 0, 0, 0))
                if reason:
                    ctx.violation("best-match-path-invalid", use_c=use_c, reason=reason, path=path, segment=[b, e], **wit)
                else:
                    inn = oracle.INNER[("squared euclidean", bool(nd))]
                    cost = oracle.path_cost(sub, q, s[b:e + 1], inn.ival(penalty) if penalty else 0.0, inf, inn.dist)
                    if not oracle.close(inn.result(cost) / r, val) or not oracle.close(float(m.distance), val * r):
                        ctx.violation("best-match-path-cost", use_c=use_c, path=path, path_value=inn.result(cost) / r,
                                      value=val, distance=float(m.distance), **wit)
            except Exception as ex:
                ctx.violation("exception", fn="best_match", use_c=use_c, error=repr(ex)[:300], **wit)
        if len(got) == 2:
            ctx.count("engine_comparisons")
            if any(not dtwmon.engines_agree(x, y, ctx) for x, y in zip(got[False][1], got[True][1])):
                ctx.violation("python-differs-from-c", python=got[False][1], c=got[True][1], **wit)
        if not got:
            continue
        # k-best stream monitor
        use_c = rng.choice(list(got))
        a = got[use_c][0]
        k = rng.choice([None, 1, 2, 3, c])
        overlap = rng.choice([0, 0, 0, 1, 2])
        minlength = rng.choice([1, 2, 2, 3])
        maxlength = rng.choice([None, None, r, r + 2])
        args = dict(k=k, overlap=overlap, minlength=minlength, maxlength=maxlength)
        try:
            seen = []
            bound = monitors.step_bound([SubsequenceAlignment._best_matches.__code__], 300 * (c + 5) + 3000)
            with bound:
              for m in (a.kbest_matches(k, overlap, minlength, maxlength) if it % 3 == 0 else a.kbest_matches(**args)):
                  seg = [int(x) for x in m.segment]
                  val = float(m.value)
                  rec = dict(idx=int(m.idx), value=val, segment=seg)
                  bad = None
                  if any(p["idx"] == rec["idx"] for p in seen):
                      bad = "repeated end point"
                  elif seen and val < seen[-1]["value"] * (1 - 1e-12) - 1e-15:
                      bad = "values decrease"
                  elif minlength is not None and seg[1] - seg[0] + 1 < minlength:
                      bad = "segment shorter than minlength"
                  elif maxlength is not None and seg[1] - seg[0] + 1 > maxlength:
                      bad = "segment longer than maxlength"
                  elif overlap == 0 and any(seg_overlap(seg, p["segment"]) > 1 for p in seen):
                      bad = "segments overlap by more than one sample although overlap=0"
                  elif not oracle.close(val, ref[rec["idx"]]):
                      bad = "value is not the matching function at its end point"
                  elif k is not None and len(seen) >= k:
                      bad = "more than k matches"
                  if bad:
                      ctx.violation("kbest-stream", reason=bad, use_c=use_c, args=args, match=rec, before=seen, **wit)
                      break
                  seen.append(rec)
            ctx.count("kbest_streams_checked")
            ctx.count("kbest_matches_yielded", len(seen))
            # completeness of the first answer: it is the best end point among those whose segment respects the limits
            if overlap == 0 and (k is None or k >= 1):
                with monitors.quiet():
                    fr = SubsequenceAlignment(qa, sa_, penalty=penalty, use_c=use_c)
                    fr.align()
                    adm = []
                    for e_ in range(c):
                        sg = [int(x) for x in fr.get_match(e_).segment]
                        ln_ = sg[1] - sg[0] + 1
                        if (minlength is None or ln_ >= minlength) and (maxlength is None or ln_ <= maxlength) and ref[e_] != inf:
                            adm.append(ref[e_])
                ctx.count("kbest_first_match_completeness_checks")
                if adm and not seen:
                    ctx.violation("kbest-stream", reason="no match yielded although %d end points have an admissible segment" % len(adm),
                                  use_c=use_c, args=args, **wit)
                elif adm and not oracle.close(seen[0]["value"], min(adm)):
                    ctx.violation("kbest-stream", reason="first match is not the best admissible end point: %r instead of %r"
                                  % (seen[0]["value"], min(adm)), use_c=use_c, args=args, match=seen[0], **wit)
            if len(ctx.samples) < 2 and len(seen) >= 2:
                ctx.sample(dict(query=q, series=s, penalty=penalty, args=args, matches=seen))
        except monitors.StepLimit as ex:
            ctx.violation("kbest-stream", reason="no progress: " + str(ex), use_c=use_c, args=args, before=seen, **wit)
        except Exception as ex:
            ctx.violation("exception", fn="kbest_matches", use_c=use_c, args=args, error=repr(ex)[:300], **wit)
        # the other iterators over the same machinery: each must be a prefix of the unbounded k-best stream of a fresh
        # object (same overlap / length limits), cut where its documented stopping rule says; *_fast == use_c=True
        if it % 2 == 1:
            try:
                lim = dict(overlap=overlap, minlength=minlength, maxlength=maxlength)
                sbd = monitors.step_bound([SubsequenceAlignment._best_matches.__code__], 3000 * (c + 5) + 20000)
                sbd.__enter__()

                def rec_(ms):
                    return [(int(m.idx), [int(x) for x in m.segment], float(m.value)) for m in ms]
                full = rec_(SubsequenceAlignment(qa, sa_, penalty=penalty, use_c=use_c).kbest_matches(k=None, **lim))
                fac = rng.choice([1.0, 1.5, 2, 4])
                rf = rec_(SubsequenceAlignment(qa, sa_, penalty=penalty, use_c=use_c).best_matches(max_rangefactor=fac, **lim))
                alpha = rng.choice([0.1, 0.3, 0.9])
                kn = rec_(SubsequenceAlignment(qa, sa_, penalty=penalty, use_c=use_c).best_matches_knee(alpha=alpha, **lim))
                badi = None
                if rf != full[:len(rf)]:
                    badi = ("best_matches", "not a prefix of the unbounded k-best stream", rf)
                elif rf and any(v > rf[0][2] * fac * (1 + 1e-12) + 1e-15 for _, _, v in rf):
                    badi = ("best_matches", "a match exceeds max_rangefactor times the first value", rf)
                elif len(rf) < len(full) and rf and (full[len(rf)][2] <= rf[0][2] * fac * (1 - 1e-12) - 1e-15 or
                                                     (fac == 1.0 and full[len(rf)][2] == rf[0][2])):
                    badi = ("best_matches", "stopped although the next match is within max_rangefactor times the first value", rf)
                elif full and not rf:
                    badi = ("best_matches", "no match although the k-best stream has one", rf)
                elif kn != full[:len(kn)]:
                    badi = ("best_matches_knee", "not a prefix of the unbounded k-best stream", kn)
                ctx.count("other_iterators_checked", 2)
                if badi:
                    ctx.violation("kbest-stream", fn=badi[0], reason=badi[1], got=badi[2], full_stream=full, use_c=use_c,
                                  args=dict(lim, max_rangefactor=fac, alpha=alpha), **wit)
                if dtw_cc is not None and not nd:
                    kk_ = rng.choice([None, 1, 2])
                    viaf = [rec_(SubsequenceAlignment(qa, sa_, penalty=penalty, use_c=False).kbest_matches_fast(k=kk_, **lim)),
                            rec_(SubsequenceAlignment(qa, sa_, penalty=penalty, use_c=False).best_matches_fast(max_rangefactor=fac, **lim)),
                            rec_(SubsequenceAlignment(qa, sa_, penalty=penalty, use_c=False).best_matches_knee_fast(alpha=alpha, **lim))]
                    viac = [rec_(SubsequenceAlignment(qa, sa_, penalty=penalty, use_c=True).kbest_matches(k=kk_, **lim)),
                            rec_(SubsequenceAlignment(qa, sa_, penalty=penalty, use_c=True).best_matches(max_rangefactor=fac, **lim)),
                            rec_(SubsequenceAlignment(qa, sa_, penalty=penalty, use_c=True).best_matches_knee(alpha=alpha, **lim))]
                    bmf = SubsequenceAlignment(qa, sa_, penalty=penalty, use_c=False)
                    bmf.align_fast()
                    b1 = bmf.best_match_fast()
                    bmc = SubsequenceAlignment(qa, sa_, penalty=penalty, use_c=True)
                    bmc.align()
                    b2 = bmc.best_match()
                    viaf.append([(int(b1.idx), [int(x) for x in b1.segment], float(b1.value))])
                    viac.append([(int(b2.idx), [int(x) for x in b2.segment], float(b2.value))])
                    if bmf.matching_function_segment(int(b1.idx)) != [int(x) for x in b1.segment]:
                        ctx.violation("kbest-stream", fn="matching_function_segment", reason="differs from the match's segment",
                                      got=[int(x) for x in bmf.matching_function_segment(int(b1.idx))], segment=[int(x) for x in b1.segment], **wit)
                    ctx.count("fast_variants_checked", 4)
                    def same_stream(x_, y_):
                        # values up to engine rounding; end points / segments exactly unless two values of the stream are
                        # so close that rounding may legitimately reorder them
                        if len(x_) != len(y_):
                            return False
                        if any(not dtwmon.engines_agree(p_[2], q_[2], ctx) for p_, q_ in zip(x_, y_)):
                            return False
                        vs_ = sorted(p_[2] for p_ in x_)
                        if any(b_ - a_ <= 1e-9 * max(1.0, abs(b_)) for a_, b_ in zip(vs_, vs_[1:])):
                            ctx.count("fast_variant_near_ties_skipped")
                            return True
                        return [p_[:2] for p_ in x_] == [q_[:2] for q_ in y_]
                    if not all(same_stream(x_, y_) for x_, y_ in zip(viaf, viac)):
                        ctx.violation("python-differs-from-c", what="*_fast methods differ from the same call on a use_c=True object",
                                      fast=viaf, use_c_object=viac, args=dict(lim, k=kk_, max_rangefactor=fac, alpha=alpha), **wit)
                sbd.__exit__(None, None, None)
            except Exception as ex:
                try:
                    sbd.__exit__(None, None, None)
                except Exception:
                    pass
                if isinstance(ex, monitors.StepLimit):
                    ctx.violation("kbest-stream", reason="no progress: " + str(ex), use_c=use_c, **wit)
                else:
                    ctx.violation("exception", fn="best_matches/_knee/_fast", use_c=use_c, error=repr(ex)[:300], **wit)
        # histories: interleaved generators on one object vs fresh objects
        if it % 2 == 0:
            try:
                argl = [dict(k=rng.choice([None, 2, 3]), overlap=rng.choice([0, 1]), minlength=rng.choice([1, 2]))
                        for _ in range(rng.choice([2, 3]))]
                hb = monitors.step_bound([SubsequenceAlignment._best_matches.__code__], 2400 * (c + 5) + 20000)
                hb.__enter__()
                fresh = []
                for ar in argl:
                    f = SubsequenceAlignment(qa, sa_, penalty=penalty, use_c=use_c)
                    fresh.append([(int(m.idx), [int(x) for x in m.segment]) for m in f.kbest_matches(**ar)])
                gens = [iter(a.kbest_matches(**ar)) for ar in argl]
                outs = [[] for _ in argl]
                live = list(range(len(gens)))
                steps = 0
                while live:
                    g = rng.choice(live)
                    steps += 1
                    if rng.random() < 0.1 and steps > 1:
                        a.reset()
                        a.align()
                    try:
                        m = next(gens[g])
                        outs[g].append((int(m.idx), [int(x) for x in m.segment]))
                    except StopIteration:
                        live.remove(g)
                hb.__exit__(None, None, None)
                ctx.count("history_interleavings_checked")
                if outs != fresh:
                    ctx.violation("history-dependence", use_c=use_c, args=argl, interleaved=outs, fresh=fresh, **wit)
            except Exception as ex:
                try:
                    hb.__exit__(None, None, None)
                except Exception:
                    pass
                ctx.violation("exception", fn="kbest_matches(history)", use_c=use_c, error=repr(ex)[:300], **wit)
    ctx.count("invariant_evaluations", inv_count["n"])
