"""C18 — affinity (local-concurrence) matrix follows its recurrence in both engines."""
import math

from vf import dtwmon, gen, monitors, oracle
from vf.oracle import inf
from vf.runner import Plan

RULE = ("cases = (a) dtw.warping_paths_affinity matrices: every in-band cell (above the diagonal only with only_triu) "
        "is recomputed cell-locally from its three returned neighbours with the documented recurrence (point affinity "
        "exp(-gamma*diff^2) + best penalised predecessor, or delta + delta_factor*predecessor below tau, clipped at 0), "
        "cells outside the band must be -inf; (b) dtw.warping_paths_affinity_fast full and compact (expanded through "
        "dtw_cc.wps_expand_slice, full range and random slices) compared cell by cell with the Python matrix; (c) "
        "LocalConcurrences.kbest_matches streams (Python, C full, C compact): every LCMatch.path must be a contiguous "
        "monotone path through cells that are positive in a pristine copy of the matrix and must not reuse a cell of "
        "an earlier match of the session; histories: sequences of kbest_matches calls with restart True/False compared "
        "with fresh objects. Grids over gamma/tau/delta/delta_factor, penalty {None,0,.1,1}, window, only_triu, "
        "self-comparison. non-trivial = both lengths >= 3 and at least one positive cell off the border.")
ASSUME = ["tolerance 1e-9 (cell recurrence) / 16 ulp (engines)", "buffer in {0, -1, 1, 2} per session (positive buffers only for the non-compact forms, which support them); the maximum check only for buffer=0"]
PLAN = Plan("C18", RULE, ASSUME,
            workers={"quick": [("plain", 16, "C18")], "thorough": [("plain", 13, "C18"), ("asan", 3, "C18")]},
            deciding=("affinity_cells_checked", "engine_cells_compared", "lc_paths_checked", "lc_history_sequences_checked"),
            crash_is_violation=True)


def check_recurrence(ctx, M, s1, s2, kw, wit):
    r, c = len(s1), len(s2)
    w = kw.get("window") or max(r, c)
    pen = kw.get("penalty") or 0
    g, tau, delta, df = kw["gamma"], kw["tau"], kw["delta"], kw["delta_factor"]
    triu = kw.get("only_triu", False)
    if len(M) != r + 1 or len(M[0]) != c + 1:
        ctx.violation("matrix-shape", got=[len(M), len(M[0])], want=[r + 1, c + 1], **wit)
        return False
    for i in range(r):
        for j in range(c):
            got = M[i + 1][j + 1]
            inb = oracle.in_band(i, j, r, c, w) and (not triu or j >= i)
            if not inb:
                if got != -inf:
                    ctx.violation("cell-outside-band-computed", cell=[i + 1, j + 1], got=got, **wit)
                    return False
                continue
            d = math.exp(-g * (s1[i] - s2[j]) ** 2)
            prev = max(M[i][j], M[i][j + 1] - pen, M[i + 1][j] - pen)
            want = max(0.0, delta + df * prev) if d < tau else max(0.0, d + prev)
            ctx.count("affinity_cells_checked")
            if not (oracle.close(got, want) or (want != want and got != got)):
                ctx.violation("cell-violates-recurrence", cell=[i + 1, j + 1], got=got, want=want, affinity=d,
                              neighbours=[M[i][j], M[i][j + 1], M[i + 1][j]], **wit)
                return False
    return True


def path_problem(path, M0, consumed):
    prev = None
    for (x, y) in path:
        if prev is not None and (x - prev[0], y - prev[1]) not in ((1, 1), (1, 0), (0, 1)):
            return "path is not contiguous/monotone at %r -> %r" % (prev, (x, y))
        if not (0 <= x < len(M0) - 1 and 0 <= y < len(M0[0]) - 1):
            return "cell %r outside the matrix" % ((x, y),)
        if not M0[x + 1][y + 1] > 0:
            return "path crosses non-positive cell %r (value %r)" % ((x, y), M0[x + 1][y + 1])
        if (x, y) in consumed:
            return "cell %r was already used by an earlier match" % ((x, y),)
        prev = (x, y)
    return None


def run(ctx):
    import warnings
    import numpy as np
    from dtaidistance import dtw, dtw_cc
    from dtaidistance.subsequence.localconcurrences import LocalConcurrences
    warnings.simplefilter("ignore")
    rng = ctx.rng
    N = ctx.scale(900, 12000)
    for it in range(N):
        r, c = rng.randint(2, 14), rng.randint(2, 14)
        if it % 40 == 9:
            r, c = rng.randint(25, 60), rng.randint(25, 60)      # scale-up slice
            ctx.count("long_series_cases")
        selfcmp = rng.random() < 0.35
        kind = rng.choice(["alpha", "dyadic", "gauss", "mono"])
        s1 = gen.series(rng, r, kind)
        s2 = list(s1) if selfcmp else gen.series(rng, c, kind)
        if selfcmp:
            c = r
        if not selfcmp and rng.random() < 0.4 and c >= 4 and r >= 4:
            k = rng.randint(2, min(r, c) - 1)
            a, b = rng.randrange(r - k + 1), rng.randrange(c - k + 1)
            s2[b:b + k] = s1[a:a + k]
        g_ = rng.choice([0.1, 1, 1, 5])
        # thresholds include values that point affinities hit exactly (ties: d == tau must count as "not below tau")
        kw = dict(gamma=g_, tau=rng.choice([0, 0.2, 0.5, 0.9, 1.0, math.exp(-g_ * 1.0), math.exp(-g_ * 0.25)]),
                  delta=rng.choice([0, -0.1, -0.5, -2]),
                  delta_factor=rng.choice([1, 0.9, 0.5]), only_triu=(selfcmp and rng.random() < 0.7) or rng.random() < 0.1)
        x = rng.random()
        if x < 0.6:
            kw["penalty"] = rng.choice([0, 0.1, 1])
        if rng.random() < 0.5:
            kw["window"] = rng.randint(1, max(r, c) + 1)
        a1, a2 = np.array(s1, dtype=float), np.array(s2, dtype=float)
        wit = dict(s1=s1, s2=s2, settings={k: v for k, v in kw.items()})
        ctx.current("affinity %r" % (wit,))
        try:
            dP, MP = dtw.warping_paths_affinity(a1, a2, **kw)
        except Exception as e:
            ctx.violation("exception", fn="dtw.warping_paths_affinity", error=repr(e)[:300], **wit)
            continue
        MPl = np.asarray(MP).tolist()
        pos = sum(1 for row in MPl[1:] for v in row[1:] if v > 0)
        ctx.case(("aff", tuple(s1), tuple(s2), tuple(sorted(kw.items()))), r >= 3 and c >= 3 and pos > 0)
        if not check_recurrence(ctx, MPl, s1, s2, kw, dict(fn="dtw.warping_paths_affinity", **wit)):
            continue
        # C full and compact
        ckw = {k: v for k, v in kw.items()}
        for compact in (False, True):
            fn = "dtw.warping_paths_affinity_fast(compact=%s)" % compact
            ctx.current("%s %r" % (fn, wit))
            try:
                dC, MC = dtw.warping_paths_affinity_fast(a1, a2, compact=compact, **ckw)
                if compact:
                    st = dtw.DTWSettings.for_dtw(a1, a2, window=kw.get("window"), penalty=kw.get("penalty"))
                    cs = dtw_cc.DTWSettings(**st.c_kwargs())
                    slices = [(0, r + 1, 0, c + 1)]
                    for _ in range(2):
                        rb = rng.randint(0, r); cb = rng.randint(0, c)
                        slices.append((rb, rng.randint(rb + 1, r + 1), cb, rng.randint(cb + 1, c + 1)))
                else:
                    slices = [(0, r + 1, 0, c + 1)]
                for (rb, re, cb, ce) in slices:
                    if compact:
                        out = np.full((re - rb, ce - cb), 777.0)
                        dtw_cc.wps_expand_slice(MC, out, r, c, rb, re, cb, ce, cs)
                    else:
                        out = np.asarray(MC)[rb:re, cb:ce]
                    ref = np.asarray(MP)[rb:re, cb:ce]
                    A, B = out.tolist(), ref.tolist()
                    bad = None
                    for i in range(re - rb):
                        for j in range(ce - cb):
                            if rb + i == 0 or cb + j == 0:
                                continue
                            ctx.count("engine_cells_compared")
                            if not dtwmon.engines_agree(A[i][j], B[i][j], ctx):
                                bad = (rb + i, cb + j, A[i][j], B[i][j])
                                break
                        if bad:
                            break
                    if bad:
                        ctx.violation("engine-cell-mismatch", fn=fn, slice=[rb, re, cb, ce], cell=[bad[0], bad[1]], c=bad[2],
                                      python=bad[3], **wit)
                        break
            except Exception as e:
                ctx.violation("exception", fn=fn, error=repr(e)[:300], **wit)
        # local concurrences streams
        if it % 2 == 0:
            lkw = {k: v for k, v in kw.items()}
            modes = [(False, None), (True, True), (True, False)]
            for use_c, compact in modes:
                fn = "LocalConcurrences(use_c=%s, compact=%s)" % (use_c, compact)
                ctx.current("%s %r" % (fn, wit))
                try:
                    def mk():
                        return LocalConcurrences(a1, None if selfcmp else a2, use_c=use_c, compact=compact, **lkw)
                    lc = mk()
                    lc.align()
                    # buffer: 0 mostly; negative (whole rows/columns of a match are blocked) and positive (neighbourhood
                    # blocked, not supported by the compact form) in some sessions.  One buffer value per session.
                    buf = rng.choice([0, 0, 0, -1, 1, 2])
                    if compact and buf > 0:
                        buf = 0
                    ops = [(rng.choice([1, 2, 3]), rng.choice([1, 2]), True, rng.choice(["iter", "iter", "store_keep", "store_drop"]))]
                    for _ in range(rng.randint(0, 2)):
                        ops.append((rng.choice([1, 2]), rng.choice([1, 2]), rng.random() < 0.4,
                                    rng.choice(["iter", "iter", "store_keep", "store_drop"])))
                    ctx.count("lc_buffer:%d" % buf)
                    consumed = set()
                    session = []
                    silent_discards = False
                    okall = True
                    dropped = False
                    for (k, minlen, restart, how) in ops:
                        if rng.random() < 0.25:
                            # a read-only view of the matrix between two searches must not change what the next search finds
                            try:
                                if compact or rng.random() < 0.7:
                                    lc.wp_slice(positivize=rng.random() < 0.7)
                                else:
                                    lc.wp_slice(1, r + 1, 1, c + 1, positivize=True)
                                ctx.count("lc_wp_slice_reads_between_searches")
                            except Exception as e_:
                                ctx.violation("exception", fn=fn + ".wp_slice", error=repr(e_)[:300], **wit)
                        if restart or dropped:
                            # kbest_matches_store(keep=False) resets the bookkeeping when it returns: what follows is a new session
                            consumed = set()
                            session = []
                            silent_discards = False
                        fresh_expected = restart or dropped
                        dropped = False
                        if minlen > 1 or buf != 0:
                            silent_discards = True     # shorter candidates / buffered neighbours are consumed without being yielded
                        got = []
                        sb = monitors.step_bound([LocalConcurrences.kbest_matches.__code__, LocalConcurrences.best_path.__code__],
                                                 150 * (r + 5) * (c + 5) + 5000)
                        sb.__enter__()
                        if how == "iter":
                            stream = lc.kbest_matches(k=k, minlen=minlen, buffer=buf, restart=restart)
                        else:
                            stream = list(lc.kbest_matches_store(k=k, minlen=minlen, buffer=buf, restart=restart,
                                                                 keep=(how == "store_keep")))
                            dropped = how == "store_drop"
                            ctx.count("lc_store_calls:" + how)
                        for m in stream:
                            path = [(int(x), int(y)) for x, y in m.path]
                            ctx.count("lc_paths_checked")
                            prob = path_problem(path, MPl, consumed)
                            if prob is None and len(path) < minlen:
                                prob = "path shorter than minlen"
                            if prob is None and k is not None and len(got) >= k:
                                prob = "more than k=%d matches yielded by one call" % k
                            if prob is None and not silent_discards and path:
                                # traced from a maximum: with minlen=1 no candidate is discarded silently, so the
                                # end cell must hold the largest value among the cells not yet used
                                ex, ey = path[-1]
                                endv = MPl[ex + 1][ey + 1]
                                best = max((MPl[x + 1][y + 1] for x in range(r) for y in range(c)
                                            if (x, y) not in consumed), default=-inf)
                                ctx.count("lc_maximum_checks")
                                if endv < best * (1 - 1e-12) - 1e-15:
                                    prob = "match does not start from the maximal available cell: %r < %r" % (endv, best)
                            if prob:
                                ctx.violation("lc-match-invalid", fn=fn, reason=prob, path=path, ops=[list(o) for o in ops], buffer=buf, **wit)
                                okall = False
                                break
                            consumed.update(path)
                            got.append(path)
                        sb.__exit__(None, None, None)
                        if not okall:
                            break
                        session.append((k, minlen, got))
                        if fresh_expected:
                            # a restarted search (or one after a store call that dropped its bookkeeping) must equal
                            # the first answer of a fresh object
                            fresh = mk()
                            fresh.align()
                            want = [[(int(x), int(y)) for x, y in m.path] for m in fresh.kbest_matches(k=k, minlen=minlen, buffer=buf)]
                            if want != got:
                                ctx.violation("history-dependence", fn=fn, ops=[list(o) for o in ops], buffer=buf, got=got, fresh=want, **wit)
                                okall = False
                                break
                    ctx.count("lc_history_sequences_checked")
                    if okall and len(ctx.samples) < 2 and session and session[0][2]:
                        ctx.sample(dict(fn=fn, s1=s1, s2=s2, settings=kw, ops=[list(o) for o in ops], first_paths=session[0][2]))
                except Exception as e:
                    try:
                        sb.__exit__(None, None, None)
                    except Exception:
                        pass
                    if isinstance(e, monitors.StepLimit):
                        ctx.violation("lc-match-invalid", fn=fn, reason="no progress: " + str(e), **wit)
                    else:
                        ctx.violation("exception", fn=fn, error=repr(e)[:300], **wit)
