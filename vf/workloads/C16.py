"""C16 — DBA k-means returns k clusters covering all series, each with a nearest mean."""
from vf import dtwmon, gen, monitors, oracle
from vf.oracle import inf
from vf.runner import Plan

RULE = ("cases = KMeans.fit runs: n in k+1..15 series (duplicates allowed, equal/unequal length, ndim 1..2) x k in "
        "1..4 x seeds (NumPy and random both seeded) x initialisation {k-means++, random, k-means++ with explicit "
        "sample size} x drop_stddev x window/penalty x use_c x serial (thorough: multiprocessing). The API's "
        "monitor_distances callback is the per-iteration trace (assignments in range, final flag exactly once, last). "
        "Postconditions: result maps exactly 0..k-1 to sets that partition all indices, len(means)==k, every series' "
        "assigned mean is a nearest mean under DTW with the given options (distances recomputed by the harness; ties "
        "within 1e-9 are free), performed_it <= max_it+1, input series untouched. non-trivial = k >= 2 and at least "
        "two non-empty clusters.")
ASSUME = ["nearest-mean is compared by value with tolerance 1e-9 (any nearest mean is acceptable)",
          "empty clusters are allowed as members of the partition"]
PLAN = Plan("C16", RULE, ASSUME,
            workers={"quick": [("plain", 16, "C16")], "thorough": [("plain", 16, "C16")]},
            deciding=("fits_checked", "nearest_mean_checks", "monitor_callbacks_observed"),
            crash_is_violation=True, timeout={"quick": 900, "thorough": 7200})


def run(ctx):
    import random as pyrandom
    import numpy as np
    from dtaidistance import dtw, dtw_ndim
    from dtaidistance.clustering.kmeans import KMeans
    monitors.guard_backtracking(ctx)      # bounded progress for every back-tracking call, wherever it is made
    rng = ctx.rng
    N = ctx.scale(500, 5000)
    for it in range(N):
        k = rng.randint(1, 4)
        n = rng.randint(k + 1, 15)
        if it % 50 == 17 or it % 100 == 37:
            n = rng.choice([17, 33, 65, rng.randint(18, 70)])      # scale-up slice: masks longer than 8/16/32/64 series
            ctx.count("large_collections")
        nd = rng.choice([0, 0, 0, 2])
        equal = rng.random() < 0.6
        n0 = rng.randint(2, 6)
        kind = rng.choice(["alpha", "dyadic", "gauss", "small", "small"])
        centers = [gen.series_nd(rng, n0, nd, kind) if nd else gen.series(rng, n0, kind) for _ in range(max(1, k))]
        ss = []
        for i in range(n):
            base = rng.choice(centers)
            m = n0 if equal else rng.randint(2, 6)
            if rng.random() < 0.5 and m == len(base):
                s = [[v + rng.choice([0, 0.125]) for v in p] if nd else p + rng.choice([0, 0.125]) for p in base]
            else:
                s = gen.series_nd(rng, m, nd, kind) if nd else gen.series(rng, m, kind)
            ss.append(s)
        if rng.random() < 0.4:
            for _ in range(rng.randint(1, 3)):
                ss[rng.randrange(n)] = [list(p) if nd else p for p in ss[rng.randrange(n)]]      # duplicates
        opts = {}
        if rng.random() < 0.4:
            opts["window"] = rng.randint(1, 6)
        if rng.random() < 0.25:
            opts["penalty"] = rng.choice([0.1, 1.0])
        if rng.random() < 0.2 and min(len(x_) for x_ in ss) >= 3:
            # begin/end relaxation, also different for the series and the mean: "nearest under DTW with the given options"
            # then means DTW(series, mean), in this argument order
            opts["psi"] = rng.choice([1, (1, 1, 0, 0), (0, 0, 1, 1), (1, 0, 0, 1), (2, 0, 0, 0), (0, 0, 0, 2)])
            ctx.count("fits_with_psi")
        use_c = rng.random() < 0.5
        if use_c:
            opts["use_c"] = True
        init = rng.choice(["pp", "pp", "random", "pp_sample"])
        seed = rng.randrange(10 ** 6)
        drop = rng.choice([None, None, 1, 2])
        max_it = rng.choice([1, 2, 5, 10, 0])     # 0: no iteration at all, the clusters of the initial centres
        stop_at = rng.choice([None, None, None, 1, 2])     # monitor_distances returning False is the documented way to stop
        parallel = (not ctx.quick) and rng.random() < 0.05
        if it % 100 == 37:
            # scale-up slice: the multiprocessing route with more series than one chunk / one worker's share
            parallel = True
            ctx.count("parallel_fits_on_large_collections")
        as_matrix = equal and rng.random() < 0.4
        layout = rng.choice(["C", "C", "strided", "F"])
        if as_matrix:
            m_ = np.array(ss, dtype=float)
            if layout == "F":
                data = np.asfortranarray(m_)
            elif layout == "strided":
                wide = np.array([[(rng.choice(ss[rng.randrange(n)])) for _ in range(m_.shape[1] * 2)] for _ in range(n)], dtype=float)
                wide[:, ::2] = m_
                data = wide[:, ::2]
            else:
                data = m_
        else:
            data = []
            for s_ in ss:
                a_ = np.array(s_, dtype=float)
                if layout == "strided":
                    # filler drawn from the data itself: a stride-1 read stays plausible but is wrong
                    wide = np.array([rng.choice(ss[rng.randrange(n)]) for _ in range(a_.shape[0] * 2)], dtype=float)
                    wide[::2] = a_
                    a_ = wide[::2]
                elif layout == "F" and nd:
                    a_ = np.asfortranarray(a_)
                data.append(a_)
        ctx.count("layout:" + layout)
        snapshot = [np.array(s, dtype=float) for s in ss]
        wit = dict(series=ss, k=k, options=dict(opts), init=init, seed=seed, drop_stddev=drop, max_it=max_it, monitor_stops_at_call=stop_at, ndim=nd, thr=None,
                   parallel=parallel, container=("matrix" if as_matrix else "list") + "/" + layout)
        thr = rng.choice([0.0001, 0.0001, 0.05, 0.2, 0.5, 1.0])     # coarse thresholds stop on "no change in means"
        kwargs = dict(k=k, max_it=max_it, max_dba_it=rng.choice([1, 3, 10]), drop_stddev=drop, dists_options=dict(opts),
                      show_progress=False, thr=thr)
        if init == "random":
            kwargs["initialize_with_kmeanspp"] = False
        elif init == "pp_sample":
            kwargs["initialize_sample_size"] = rng.randint(1, max(1, n - k))
        wit["thr"] = thr
        trace = []

        def monitor(cd, final):
            ctx.count("monitor_callbacks_observed")
            trace.append((final, [(int(c), float(d)) for c, d in cd]))
            if stop_at is not None and not final and len(trace) >= stop_at:
                ctx.count("fits_stopped_by_monitor")
                return False
            return True
        ctx.current("kmeans %r" % (wit,))
        np.random.seed(seed)
        pyrandom.seed(seed)
        try:
            model = KMeans(**kwargs)
            if use_c and not ctx.quick and rng.random() < 0.04:
                # fit_fast: forces the C engine and the multiprocessing pool
                ctx.count("fit_fast_calls")
                cluster_idx, performed_it = model.fit_fast(data, monitor_distances=monitor)
            else:
                cluster_idx, performed_it = model.fit(data, use_parallel=parallel, monitor_distances=monitor)
            if rng.random() < 0.3:
                # a second fit on the same object (other random draws): its result alone is judged below and must be a
                # fresh partition with nearest means, not an accumulation on top of the first one
                np.random.seed(seed + 7919)
                pyrandom.seed(seed + 7919)
                del trace[:]
                wit["second_fit_on_the_same_object"] = True
                cluster_idx, performed_it = model.fit(data, use_parallel=parallel, monitor_distances=monitor)
                ctx.count("refits_on_the_same_object")
        except Exception as e:
            ctx.violation("exception", fn="KMeans.fit", error=repr(e)[:300], **wit)
            continue
        ctx.count("fits_checked")
        nonempty = sum(1 for v in cluster_idx.values() if v)
        ctx.case(("kmeans", repr(ss), k, dtwmon.settings_key(opts), init, seed, drop, max_it), k >= 2 and nonempty >= 2)
        bad = None
        if sorted(cluster_idx.keys()) != list(range(k)):
            bad = "keys are not 0..k-1"
        elif sorted(i for v in cluster_idx.values() for i in v) != list(range(n)):
            bad = "clusters do not partition all series"
        elif len(model.means) != k or any(m is None for m in model.means):
            bad = "number of means is not k"
        elif performed_it > max_it + 1:
            bad = "iteration count %d exceeds max_it + 1" % performed_it
        elif [f for f, _ in trace].count(True) != 1 or not trace[-1][0]:
            bad = "final-assignment callback not seen exactly once at the end"
        elif any(not (0 <= c < k) for _, cd in trace for c, _ in cd) or any(len(cd) != n for _, cd in trace):
            bad = "callback assignments out of range"
        elif any(not np.array_equal(np.asarray(a), b) for a, b in zip(data, snapshot)):
            bad = "input series modified"
        if bad:
            ctx.violation("kmeans-postcondition", reason=bad, clusters={str(a): sorted(b) for a, b in cluster_idx.items()},
                          performed_it=performed_it, **wit)
            continue
        # nearest mean
        dist = dtw_ndim.distance if nd else dtw.distance
        o2 = {a: b for a, b in opts.items() if a != "use_c"}
        means = [np.asarray(m, dtype=float) for m in model.means]
        assigned = {i: ki for ki, v in cluster_idx.items() for i in v}
        for i in range(n):
            ds = [float(dist(snapshot[i], m, use_c=use_c, **o2)) for m in means]
            ctx.count("nearest_mean_checks")
            if ds[assigned[i]] > min(ds) * (1 + 1e-9) + 1e-12:
                ctx.violation("not-assigned-to-a-nearest-mean", index=i, assigned=assigned[i], distances=ds,
                              means=[m.tolist() for m in means], **wit)
                break
        if len(ctx.samples) < 2 and nonempty >= 2:
            ctx.sample(dict(k=k, n=n, seed=seed, init=init, clusters={str(a): sorted(b) for a, b in cluster_idx.items()},
                            performed_it=performed_it, callbacks=len(trace)))
