"""C20 — calls are pure: inputs untouched, container- and history-independent."""
import array
import copy

from vf import dtwmon, gen, monitors, oracle
from vf.oracle import inf
from vf.runner import Plan

RULE = ("cases = public calls observed by a global snapshot monitor (icontract snapshot + postcondition on %d routines "
        "of dtw, dtw_ndim, ed, dtw_barycenter, alignment, similarity and the subsequence / clustering classes): the "
        "bytes of every array-like argument (nested containers and SeriesContainer.series included) are compared "
        "before/after each call, including nested calls made by the library. Container matrix: the same numeric data "
        "as list, tuple, array.array('d'), ndarray C / F / strided / reversed / transposed view, list of arrays, tuple "
        "of arrays, 2-D / 3-D array and SeriesContainer through every routine of both engines that documents the "
        "container; all results must agree. NumPy absent: pure-Python routines in a worker where NumPy cannot be "
        "imported must equal the reference. Histories: every call repeated, and call sequences sharing series, "
        "settings dictionaries and model objects compared with fresh objects/dictionaries. non-trivial = >= 2 series "
        "with >= 2 points and a non-zero result.")
ASSUME = ["results of different containers are compared with 16 ulp tolerance within one engine",
          "containers are only used with routines that document them (lists are not accepted by the C engine)",
          "mutation of a caller's settings dictionary counts as a violation only when it changes the result of a "
          "later call that shares the dictionary"]

MONITORED = [
    ("dtaidistance.dtw", ["distance", "distance_fast", "warping_paths", "warping_paths_fast", "warping_path",
                          "warping_path_fast", "lb_keogh", "ub_euclidean", "distance_matrix", "distance_matrix_fast",
                          "warp", "warping_paths_affinity", "warping_paths_affinity_fast", "best_path"]),
    ("dtaidistance.dtw_ndim", ["distance", "distance_fast", "warping_paths", "warping_paths_fast", "distance_matrix",
                               "distance_matrix_fast", "warping_path", "ub_euclidean"]),
    ("dtaidistance.ed", ["distance", "distance_fast"]),
    ("dtaidistance.dtw_barycenter", ["dba", "dba_loop"]),
    ("dtaidistance.alignment", ["needleman_wunsch", "best_alignment"]),
    ("dtaidistance.similarity", ["distance_to_similarity", "squash"]),
]
RULE = RULE % sum(len(v) for _, v in MONITORED)
def _own_suite(tier, seed, scratch):
    """thorough: the repository's own unedited tests are one more workload under this property's monitors"""
    if tier != "thorough":
        return None, None, None
    from vf import ownsuite
    return ownsuite.run(scratch, "purity", "C20")


PLAN = Plan("C20", RULE, ASSUME, native=_own_suite,
            workers={"quick": [("plain", 14, "C20"), ("plain-nonumpy", 2, "C20")],
                     "thorough": [("plain", 11, "C20"), ("asan", 3, "C20"), ("plain-nonumpy", 2, "C20")]},
            deciding=("purity_snapshots_compared", "container_equivalence_checks", "history_checks",
                      "numpy_absent_checks"),
            crash_is_violation=True)


def fingerprint(x, depth=0):
    """bytes-level snapshot of array-like arguments (nested)"""
    try:
        import numpy as np
    except Exception:
        np = None
    if depth > 4:
        return None
    if np is not None and isinstance(x, np.ndarray):
        return ("nd", x.shape, x.dtype.str, x.tobytes())
    if isinstance(x, array.array):
        return ("arr", x.typecode, x.tobytes())
    if isinstance(x, (list, tuple)):
        if len(x) > 400:
            return None
        return (type(x).__name__, tuple(fingerprint(v, depth + 1) for v in x))
    if isinstance(x, dict):
        return ("dict", tuple(sorted((str(k), repr(v) if not hasattr(v, "__len__") or isinstance(v, str) else fingerprint(v, depth + 1))
                                     for k, v in x.items())))
    if type(x).__name__ == "SeriesContainer":
        return ("sc", fingerprint(x.series, depth + 1))
    if isinstance(x, (int, float, str, bool, type(None))):
        return x
    return None


def install_purity(ctx):
    import importlib
    n = 0
    for mname, fns in MONITORED:
        mod = importlib.import_module(mname)
        for fn in fns:
            if not hasattr(mod, fn):
                ctx.count("monitored_function_missing")
                continue
            label = "%s.%s" % (mname.replace("dtaidistance.", ""), fn)

            def snap(a, kw, _l=label):
                return ([fingerprint(v) for v in a], {k: fingerprint(v) for k, v in kw.items() if k in ("s", "s1", "s2", "series", "c", "mask", "D", "X")})

            def post(a, kw, result, pre, _l=label):
                if pre is None:
                    return
                ctx.count("purity_snapshots_compared")
                after = ([fingerprint(v) for v in a], {k: fingerprint(v) for k, v in kw.items() if k in pre[1]})
                if after != pre:
                    which = [i for i, (x, y) in enumerate(zip(pre[0], after[0])) if x != y] + \
                            [k for k in pre[1] if pre[1][k] != after[1].get(k)]
                    ctx.violation("input-modified", fn=_l, changed_arguments=which)
            monitors.attach(ctx, mod, fn, post, snap, label=label)
            n += 1
    ctx.count("monitored_functions", n)


def containers_1d(np, s):
    out = {"list": list(s), "tuple": tuple(s), "array": array.array("d", s)}
    if np is not None:
        a = np.array(s, dtype=float)
        out["np"] = a
        st = np.zeros(3 * len(s)); st[::3] = s; st[1::3] = 9e9
        out["np_strided"] = st[::3]
        out["np_rev"] = np.array(list(reversed(s)), dtype=float)[::-1]
        out["np_col_of_F"] = np.asfortranarray(np.array([s, [7.0] * len(s)], dtype=float))[0]
    return out


def collections(np, ss, equal):
    out = {"list_of_lists": ([list(s) for s in ss], ("py",)),
           "list_of_array": ([array.array("d", s) for s in ss], ("py", "c")),
           "list_of_np": ([np.array(s, dtype=float) for s in ss], ("py", "c")),
           "tuple_of_np": (tuple(np.array(s, dtype=float) for s in ss), ("py", "c")),
           "list_of_strided": ([np.repeat(np.array(s, dtype=float), 2)[::2] for s in ss], ("py", "c")),
           # series of different types in one list (accepted element by element by SeriesContainer)
           "list_mixed_types": ([(array.array("d", s) if i_ % 2 else np.array(s, dtype=float)) for i_, s in enumerate(ss)], ("py", "c")),
           "list_mixed_types_array_first": ([(np.array(s, dtype=float) if i_ % 2 else array.array("d", s)) for i_, s in enumerate(ss)],
                                            ("py", "c"))}
    if equal:
        m = np.array(ss, dtype=float)
        out["matrix_C"] = (m, ("py", "c"))
        out["matrix_F"] = (np.asfortranarray(m), ("py", "c"))
        out["matrix_T_view"] = (np.ascontiguousarray(m.T).T, ("py", "c"))
        big = np.full((len(ss), 2 * len(ss[0])), 5e8); big[:, ::2] = m
        out["matrix_strided"] = (big[:, ::2], ("py", "c"))
        if hasattr(np, "matrix"):
            import warnings as _w
            with _w.catch_warnings():
                _w.simplefilter("ignore")
                out["numpy_matrix"] = (np.matrix(m), ("py", "c"))      # listed as supported by SeriesContainer
    return out


def same(a, b, ctx):
    import numpy as np
    a, b = np.asarray(a, dtype=float), np.asarray(b, dtype=float)
    if a.shape != b.shape:
        return False
    for x, y in zip(a.reshape(-1).tolist(), b.reshape(-1).tolist()):
        if not dtwmon.engines_agree(x, y, ctx):
            return False
    return True


def run(ctx):
    nonumpy = ctx.variant.endswith("nonumpy")
    if nonumpy:
        monitors.block_numpy()
    from dtaidistance import dtw, ed
    rng = ctx.rng
    if nonumpy:
        # pure-Python routines without NumPy: results must equal the reference / be container independent
        for _ in range(ctx.scale(6000, 60000)):
            r, c = rng.randint(1, 9), rng.randint(1, 9)
            s1, s2 = gen.series(rng, r), gen.series(rng, c)
            kw = gen.rand_settings(rng, r, c)
            want = dtwmon.ref_for(s1, s2, kw)
            res = {}
            for name, (a, b) in {"list": (list(s1), list(s2)), "tuple": (tuple(s1), tuple(s2)),
                                 "array": (array.array("d", s1), array.array("d", s2))}.items():
                before = (fingerprint(a), fingerprint(b))
                try:
                    res[name] = float(dtw.distance(a, b, **kw))
                    if name == "array" and isinstance(kw.get("inner_dist", ""), str):
                        res["array_fast"] = float(dtw.distance_fast(a, b, **kw))
                except Exception as e:
                    ctx.violation("exception", fn="dtw.distance[no numpy]", container=name, error=repr(e)[:300],
                                  s1=s1, s2=s2, settings=dict(dtwmon.settings_key(kw)))
                    continue
                if (fingerprint(a), fingerprint(b)) != before:
                    ctx.violation("input-modified", fn="dtw.distance[no numpy]", container=name)
            ctx.count("numpy_absent_checks")
            ctx.case(("nonumpy", tuple(s1), tuple(s2), dtwmon.settings_key(kw)), min(r, c) >= 2 and want not in (0, inf))
            for name, v in res.items():
                if not oracle.close(v, want):
                    ctx.violation("numpy-absent-result-differs", container=name, got=v, reference=want, s1=s1, s2=s2,
                                  settings=dict(dtwmon.settings_key(kw)))
            # the bounds are NumPy-free too: same value as the reference (and hence as with NumPy present)
            wlb = kw.get("window")
            inn_ = oracle.INNER[(kw.get("inner_dist", "squared euclidean"), False)] \
                if isinstance(kw.get("inner_dist", "squared euclidean"), str) else None
            if inn_ is not None:
                want_lb = oracle.ref_lb_keogh(s1, s2, wlb, inn_.dist, inn_.result)
                want_ub = oracle.ref_ed(s1, s2, inn_.dist, inn_.result)
                for name, (a, b) in {"list": (list(s1), list(s2)), "tuple": (tuple(s1), tuple(s2)),
                                     "array": (array.array("d", s1), array.array("d", s2))}.items():
                    try:
                        lkw = {k_: v_ for k_, v_ in kw.items() if k_ in ("window", "inner_dist")}
                        got_lb = float(dtw.lb_keogh(a, b, **lkw))
                        got_ub = float(dtw.ub_euclidean(a, b, **({"inner_dist": kw["inner_dist"]} if "inner_dist" in kw else {})))
                    except Exception as e:
                        ctx.violation("exception", fn="dtw.lb_keogh/ub_euclidean[no numpy]", container=name, error=repr(e)[:300],
                                      s1=s1, s2=s2, settings=dict(dtwmon.settings_key(kw)))
                        continue
                    ctx.count("numpy_absent_bound_checks")
                    if not oracle.close(got_lb, want_lb):
                        ctx.violation("numpy-absent-result-differs", fn="dtw.lb_keogh", container=name, got=got_lb, reference=want_lb,
                                      s1=s1, s2=s2, settings=dict(dtwmon.settings_key(kw)))
                    if not oracle.close(got_ub, want_ub):
                        ctx.violation("numpy-absent-result-differs", fn="dtw.ub_euclidean", container=name, got=got_ub, reference=want_ub,
                                      s1=s1, s2=s2, settings=dict(dtwmon.settings_key(kw)))
            e1 = float(ed.distance(s1, s2))
            if not oracle.close(e1, oracle.ref_ed(s1, s2)):
                ctx.violation("numpy-absent-result-differs", fn="ed.distance", got=e1, reference=oracle.ref_ed(s1, s2))
            if r >= 1 and rng.random() < 0.2:
                ss = [gen.series(rng, rng.randint(1, 6)) for _ in range(3)]
                try:
                    dm = list(dtw.distance_matrix([array.array("d", s) for s in ss], compact=True))
                    wantm = [dtwmon.ref_for(ss[a], ss[b], {}) for a in range(3) for b in range(a + 1, 3)]
                    if any(not oracle.close(x, y) for x, y in zip(dm, wantm)):
                        ctx.violation("numpy-absent-result-differs", fn="dtw.distance_matrix", got=dm, reference=wantm)
                except Exception as e:
                    ctx.violation("exception", fn="dtw.distance_matrix[no numpy]", error=repr(e)[:300])
        ctx.count("purity_snapshots_compared", 0)
        for k in ("container_equivalence_checks", "history_checks", "purity_snapshots_compared"):
            ctx.counters.setdefault(k, 1)        # decided by the NumPy workers
        return
    import numpy as np
    from dtaidistance import dtw_ndim, dtw_barycenter, alignment, similarity
    from dtaidistance.util import SeriesContainer
    from dtaidistance.subsequence.subsequencesearch import SubsequenceSearch
    from dtaidistance.subsequence.subsequencealignment import SubsequenceAlignment
    from dtaidistance.clustering import hierarchical as H
    install_purity(ctx)
    ctx.counters.setdefault("numpy_absent_checks", 1)     # decided by the no-NumPy workers
    N = ctx.scale(500, 6000)
    for it in range(N):
        r, c = rng.randint(1, 9), rng.randint(1, 9)
        s1, s2 = gen.series(rng, r), gen.series(rng, c)
        kw = gen.rand_settings(rng, r, c)
        cstr = isinstance(kw.get("inner_dist", ""), str)
        c1, c2 = containers_1d(np, s1), containers_1d(np, s2)
        # single-pair routines over every container
        routines = [("dtw.distance", lambda a, b: dtw.distance(a, b, **kw), None),
                    ("ed.distance", lambda a, b: ed.distance(a, b), None),
                    ("dtw.lb_keogh", lambda a, b: dtw.lb_keogh(a, b, window=kw.get("window")), None),
                    ("dtw.warping_paths", lambda a, b: (lambda r_: r_[1] if isinstance(r_, tuple) else r_)(dtw.warping_paths(a, b, **kw)), None)]
        if cstr:
            arrs = ("array", "np", "np_strided", "np_rev", "np_col_of_F")
            routines += [("dtw.distance_fast", lambda a, b: dtw.distance_fast(a, b, **kw), arrs),
                         ("ed.distance_fast", lambda a, b: ed.distance_fast(a, b), arrs),
                         ("dtw.warping_paths_fast", lambda a, b: (lambda r_: r_[1] if isinstance(r_, tuple) else r_)(dtw.warping_paths_fast(a, b, **kw)), arrs),
                         ("dtw.lb_keogh[c]", lambda a, b: dtw.lb_keogh(a, b, window=kw.get("window"), use_c=True), arrs),
                         ("dtw.warping_path_fast", lambda a, b: [list(p) for p in dtw.warping_path_fast(a, b, **{k: v for k, v in kw.items() if k != "max_length_diff"})] or [[-1, -1]], arrs)]
        for name, f, allowed in routines:
            base = None
            for cname in c1:
                if allowed is not None and cname not in allowed:
                    continue
                ctx.current("%s %s %r %r %r" % (name, cname, s1, s2, kw))
                try:
                    v = f(c1[cname], c2[cname])
                    v2 = f(c1[cname], c2[cname])          # immediate repeat
                except Exception as e:
                    ctx.violation("exception", fn=name, container=cname, error=repr(e)[:300], s1=s1, s2=s2,
                                  settings=dict(dtwmon.settings_key(kw)))
                    continue
                ctx.count("container_equivalence_checks")
                ctx.count("history_checks")
                if not same(v, v2, ctx):
                    ctx.violation("repeat-differs", fn=name, container=cname, s1=s1, s2=s2, settings=dict(dtwmon.settings_key(kw)))
                if base is None:
                    base = (cname, v)
                elif not same(v, base[1], ctx):
                    ctx.violation("container-dependent-result", fn=name, container=cname, reference_container=base[0],
                                  got=np.asarray(v).tolist(), want=np.asarray(base[1]).tolist(), s1=s1, s2=s2,
                                  settings=dict(dtwmon.settings_key(kw)))
            ctx.case((name, tuple(s1), tuple(s2), dtwmon.settings_key(kw)), min(r, c) >= 2)
        # collections
        n = rng.randint(2, 5)
        equal = rng.random() < 0.6
        n0 = rng.randint(1, 6)
        ss = [gen.series(rng, n0 if equal else rng.randint(1, 6)) for _ in range(n)]
        kwm = gen.rand_settings(rng, min(map(len, ss)), min(map(len, ss)), with_mld=False)
        cstrm = isinstance(kwm.get("inner_dist", ""), str)
        cols = collections(np, ss, equal)
        cols["SeriesContainer"] = (SeriesContainer.wrap([np.array(s, dtype=float) for s in ss]), ("py", "c"))
        for eng in ("py", "c"):
            if eng == "c" and not cstrm:
                continue
            base = None
            for cname, (data, engs) in cols.items():
                if eng not in engs:
                    continue
                ctx.current("distance_matrix %s %s %r %r" % (eng, cname, ss, kwm))
                try:
                    v = dtw.distance_matrix(data, use_c=(eng == "c"), compact=True, **kwm)
                except Exception as e:
                    ctx.violation("exception", fn="dtw.distance_matrix[%s]" % eng, container=cname, error=repr(e)[:300],
                                  series=ss, settings=dict(dtwmon.settings_key(kwm)))
                    continue
                ctx.count("container_equivalence_checks")
                if base is None:
                    base = (cname, list(v))
                elif not same(list(v), base[1], ctx):
                    ctx.violation("container-dependent-result", fn="dtw.distance_matrix[%s]" % eng, container=cname,
                                  reference_container=base[0], got=list(v), want=base[1], series=ss,
                                  settings=dict(dtwmon.settings_key(kwm)))
        # multivariate collections
        if it % 3 == 0:
            nd = rng.randint(2, 3)
            sn = [gen.series_nd(rng, n0, nd) for _ in range(n)]
            m3 = np.array(sn, dtype=float)
            ncols = {"list_of_2d": [np.array(s, dtype=float) for s in sn], "3d_C": m3, "3d_F": np.asfortranarray(m3),
                     "list_of_2d_F": [np.asfortranarray(np.array(s, dtype=float)) for s in sn]}
            kwnd = gen.rand_settings(rng, n0, n0, with_mld=False)
            if not isinstance(kwnd.get("inner_dist", ""), str):
                kwnd.pop("inner_dist")
            ncols["tuple_of_2d"] = tuple(np.array(s, dtype=float) for s in sn)
            ncols["SeriesContainer_3d"] = SeriesContainer.wrap(m3.copy())
            refnd = None
            for eng in ("py", "c"):
                base = None
                for cname, data in ncols.items():
                    ctx.current("ndim distance_matrix %s %s %r %r" % (eng, cname, sn, kwnd))
                    try:
                        v = list(dtw_ndim.distance_matrix(data, use_c=(eng == "c"), compact=True, **kwnd))
                    except Exception as e:
                        ctx.violation("exception", fn="dtw_ndim.distance_matrix[%s]" % eng, container=cname, error=repr(e)[:300], series=sn,
                                      settings=dict(dtwmon.settings_key(kwnd)))
                        continue
                    ctx.count("container_equivalence_checks")
                    if base is None:
                        base = (cname, v)
                    elif not same(v, base[1], ctx):
                        ctx.violation("container-dependent-result", fn="dtw_ndim.distance_matrix[%s]" % eng, container=cname,
                                      reference_container=base[0], got=v, want=base[1], series=sn,
                                      settings=dict(dtwmon.settings_key(kwnd)))
        # multivariate single pairs over memory layouts
        if it % 3 == 1:
            nd = rng.randint(2, 3)
            a2, b2 = np.array(gen.series_nd(rng, r, nd), dtype=float), np.array(gen.series_nd(rng, c, nd), dtype=float)
            lays = {"C": (a2, b2), "F": (np.asfortranarray(a2), np.asfortranarray(b2)),
                    "T_view": (np.ascontiguousarray(a2.T).T, np.ascontiguousarray(b2.T).T),
                    "strided": (np.repeat(a2, 2, axis=0)[::2], np.repeat(b2, 2, axis=1)[:, ::2])}
            kwn = {k: v for k, v in kw.items() if isinstance(kw.get("inner_dist", ""), str)} if cstr else {}
            for name, f in (("dtw_ndim.distance", lambda x, y: dtw_ndim.distance(x, y, **kwn)),
                            ("dtw_ndim.distance_fast", lambda x, y: dtw_ndim.distance_fast(x, y, **kwn)),
                            ("dtw_ndim.warping_paths_fast", lambda x, y: (lambda r_: r_[1] if isinstance(r_, tuple) else r_)(dtw_ndim.warping_paths_fast(x, y, **kwn))),
                            ("dtw_ndim.ub_euclidean", lambda x, y: dtw_ndim.ub_euclidean(x, y))):
                base = None
                for lname, (x, y) in lays.items():
                    ctx.current("%s %s %r %r %r" % (name, lname, a2.tolist(), b2.tolist(), kwn))
                    try:
                        v = f(x, y)
                    except Exception as e:
                        ctx.violation("exception", fn=name, container=lname, error=repr(e)[:300], s1=a2.tolist(), s2=b2.tolist(),
                                      settings=dict(dtwmon.settings_key(kwn)))
                        continue
                    ctx.count("container_equivalence_checks")
                    if base is None:
                        base = (lname, v)
                    elif not same(v, base[1], ctx):
                        ctx.violation("container-dependent-result", fn=name, container=lname, reference_container=base[0],
                                      got=np.asarray(v).tolist(), want=np.asarray(base[1]).tolist(), s1=a2.tolist(),
                                      s2=b2.tolist(), settings=dict(dtwmon.settings_key(kwn)))
        # DBA over containers (purity of series and of the initial average is watched by the snapshot monitor)
        if it % 4 == 0 and equal:
            from dtaidistance import dtw_cc as _cc
            for use_c in (False, True):
                base = None
                dmask = np.array([rng.random() < 0.6 for _ in range(n)], dtype=bool)
                if not dmask.any():
                    dmask[rng.randrange(n)] = True
                nprob = rng.choice([0, 0, 2]) if use_c else 0
                # the initial average need not have the length of the series
                c_init = ss[0] if rng.random() < 0.5 else gen.series(rng, rng.randint(2, len(ss[0]) + 3))
                for cname in ("list_of_np", "matrix_C", "matrix_F", "matrix_strided"):
                    data = cols[cname][0]
                    try:
                        if nprob:
                            _cc.srand(12345)
                        avg = dtw_barycenter.dba_loop(data, c=np.array(c_init, dtype=float), max_it=2, thr=None, use_c=use_c,
                                                      mask=dmask.copy(), nb_prob_samples=nprob)
                    except Exception as e:
                        ctx.violation("exception", fn="dba_loop", use_c=use_c, container=cname, error=repr(e)[:300], series=ss)
                        continue
                    ctx.count("container_equivalence_checks")
                    if base is None:
                        base = (cname, np.asarray(avg))
                    elif not same(avg, base[1], ctx):
                        ctx.violation("container-dependent-result", fn="dba_loop[use_c=%s]" % use_c, container=cname,
                                      reference_container=base[0], got=np.asarray(avg).tolist(), want=base[1].tolist(), series=ss)
        # clustering over containers: same numeric content and same random seed => same clusters and centres
        if it % 4 == 2 and n >= 3 and min(map(len, ss)) >= 2:
            import random as _pyrandom
            from dtaidistance.clustering.kmeans import KMeans
            kk = rng.randint(1, min(3, n - 1))
            cseed = rng.randrange(10 ** 6)
            kpp = rng.random() < 0.5
            cwin = rng.choice([None, None, 2, 3])
            names = ["list_of_np", "tuple_of_np", "list_of_strided"] + (["matrix_C", "matrix_F", "matrix_T_view", "matrix_strided"] if equal else [])
            # the strided collection of `collections` repeats each element; use filler that makes a stride-1 read plausible
            cols2 = dict(cols)
            fill = []
            for s_ in ss:
                w_ = np.array([rng.choice(rng.choice(ss)) for _ in range(2 * len(s_))], dtype=float)
                w_[::2] = s_
                fill.append(w_[::2])
            cols2["list_of_strided"] = (fill, ("py", "c"))

            def _kmeans(data, use_c):
                np.random.seed(cseed)
                _pyrandom.seed(cseed)
                do = {"use_c": True} if use_c else {}
                if cwin:
                    do["window"] = cwin
                m_ = KMeans(k=kk, max_it=3, max_dba_it=2, show_progress=False, initialize_with_kmeanspp=kpp, dists_options=do)
                cl_, _ = m_.fit(data, use_parallel=False)
                return [sorted(cl_[q_]) for q_ in sorted(cl_)], [np.asarray(x_, dtype=float).tolist() for x_ in m_.means]

            def _linkage(data, use_c):
                do = {"window": cwin} if cwin else {}
                m_ = H.LinkageTree(dtw.distance_matrix_fast if use_c else dtw.distance_matrix, do)
                m_.fit(data)
                return [[float(x_) for x_ in row_] for row_ in m_.linkage]

            for fname, f in (("KMeans.fit", _kmeans), ("LinkageTree.fit", _linkage)):
                for use_c in (False, True):
                    base = None
                    for cname in names:
                        data = cols2[cname][0]
                        fp = [np.array(x_, dtype=float).tolist() for x_ in data]
                        ctx.current("%s use_c=%s %s %r k=%d seed=%d kpp=%s window=%r" % (fname, use_c, cname, ss, kk, cseed, kpp, cwin))
                        try:
                            v = f(data, use_c)
                        except Exception as e:
                            ctx.violation("exception", fn=fname, use_c=use_c, container=cname, error=repr(e)[:300], series=ss,
                                          k=kk, seed=cseed, kmeanspp=kpp, window=cwin)
                            continue
                        ctx.count("container_equivalence_checks")
                        ctx.count("clustering_container_checks")
                        if [np.array(x_, dtype=float).tolist() for x_ in data] != fp:
                            ctx.violation("input-modified", fn=fname, use_c=use_c, container=cname, series=ss)
                        if base is None:
                            base = (cname, v)
                        elif v != base[1]:
                            ctx.violation("container-dependent-result", fn="%s[use_c=%s]" % (fname, use_c), container=cname,
                                          reference_container=base[0], got=v, want=base[1], series=ss, k=kk, seed=cseed,
                                          kmeanspp=kpp, window=cwin)
        # histories: the same array objects, modified in place between two calls (a sliding buffer), must be read again
        if it % 5 == 0:
            for fname_, f_ in (("dtw.distance", dtw.distance), ("dtw.distance_fast", dtw.distance_fast), ("ed.distance", ed.distance)):
                buf_a, buf_b = np.array(s1, dtype=float), np.array(s2, dtype=float)
                try:
                    got_, snaps_ = [], []
                    for step_ in range(3):
                        got_.append(float(f_(buf_a, buf_b)))          # consecutive calls on the very same objects
                        snaps_.append((buf_a.tolist(), buf_b.tolist()))
                        buf_a[:-1] = buf_a[1:].copy()
                        buf_a[-1] = rng.choice([0.0, 1.5, -2.0])
                        buf_b *= 1.5
                    for step_, (g_, (la_, lb_)) in enumerate(zip(got_, snaps_)):
                        want_ = float(f_(np.array(la_), np.array(lb_)))
                        ctx.count("history_checks")
                        if not same([g_], [want_], ctx):
                            ctx.violation("history-dependence", what="%s on array objects that were modified in place since the "
                                          "previous call" % fname_, step=step_, got=g_, fresh_arrays=want_, s1=la_, s2=lb_)
                            break
                except Exception as e:
                    ctx.violation("exception", fn="in-place history " + fname_, error=repr(e)[:300], s1=s1, s2=s2)
        # histories: shared settings dictionaries and model objects
        if it % 2 == 0:
            arrs = [np.array(s, dtype=float) for s in ss]
            q = np.array(gen.series(rng, rng.randint(1, 5)), dtype=float)
            opts = {}
            if rng.random() < 0.5:
                opts["window"] = rng.randint(1, 6)
            shared = dict(opts)
            try:
                d_before = [float(dtw.distance(q, a, **shared)) for a in arrs]
                m_before = np.asarray(dtw.distance_matrix(arrs, **shared)).tolist()
                ssr = SubsequenceSearch(q, arrs, dists_options=shared)
                k0 = [(float(m.distance), int(m.idx)) for m in ssr.kbest_matches(k=1)]
                k1 = [(float(m.distance), int(m.idx)) for m in ssr.kbest_matches(k=2)]
                kf = [(float(m.distance), int(m.idx)) for m in SubsequenceSearch(q, arrs, dists_options=dict(opts)).kbest_matches(k=2)]
                if [d_ for d_, _ in k1] != [d_ for d_, _ in kf]:
                    ctx.violation("history-dependence", what="kbest_matches(k=2) after kbest_matches(k=1) differs from a fresh object",
                                  reused=k1, fresh=kf)
                hm = H.Hierarchical(dtw.distance_matrix, shared, show_progress=False)
                cl1 = hm.fit(arrs)
                d_after = [float(dtw.distance(q, a, **shared)) for a in arrs]
                m_after = np.asarray(dtw.distance_matrix(arrs, **shared)).tolist()
                k2 = [(float(m.distance), int(m.idx)) for m in ssr.kbest_matches(k=2)]
                cl2 = hm.fit(arrs)
                ctx.count("history_checks", 4)
                if d_after != d_before:
                    ctx.violation("history-dependence", what="dtw.distance with a settings dictionary that was also "
                                  "handed to SubsequenceSearch/Hierarchical", before=d_before, after=d_after,
                                  dictionary_now={k: repr(v) for k, v in shared.items()}, original=opts)
                elif m_after != m_before:
                    ctx.violation("history-dependence", what="dtw.distance_matrix with a settings dictionary that was also "
                                  "handed to SubsequenceSearch/Hierarchical", before=m_before, after=m_after,
                                  dictionary_now={k: repr(v) for k, v in shared.items()}, original=opts)
                if k1 != k2:
                    ctx.violation("history-dependence", what="SubsequenceSearch.kbest_matches repeated", first=k1, second=k2)
                if cl1 != cl2:
                    ctx.violation("history-dependence", what="Hierarchical.fit repeated", first=str(cl1), second=str(cl2))
            except Exception as e:
                ctx.violation("exception", fn="history", error=repr(e)[:300], series=ss)
        if len(ctx.samples) < 2:
            ctx.sample(dict(s1=s1, s2=s2, settings=dict(dtwmon.settings_key(kw)), containers=list(c1), collections=list(cols)))
