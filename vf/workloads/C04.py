"""C04 — accumulated-cost matrix is cell-wise optimal and identical across engines."""
from vf import dtwmon, gen, monitors, oracle, wpsmon
from vf.oracle import inf
from vf.runner import Plan
from vf import ownsuite

RULE = ("cases = calls of dtw.warping_paths (checked cell by cell against the pair-indexed reference DP: shape, "
        "in-band optimum, inf outside the band, -1 marking rule, returned d == optimum == distance()), "
        "dtw.warping_paths_fast(compact=False) and compact=True expanded through dtw_cc.wps_expand_slice "
        "(full range and random slices), each compared cell by cell with the Python matrix of the same call. "
        "Complete grid len1,len2<=L x window in {None,1..W} x integer psi x penalty on/off, so every compact "
        "region signature (A,B,C,D non-empty) occurs (counted), plus seeded random series crossing window x "
        "penalty x psi tuple x max_step x max_dist x use_pruning x inner distance x ndim 1..3 x "
        "keep_int_repr x psi_neg. non-trivial = both lengths >= 2 and a finite non-zero distance.")
ASSUME = ["oracle tolerance 1e-9 relative; engines 16 ulp / 1e-12", "cells whose optimum exceeds max_dist (or the "
          "pruning bound) may hold inf or any value above it", "-1 marks are validated by rule per engine, "
          "not compared between engines (tie-breaking is free)"]
PLAN = Plan("C04", RULE, ASSUME, native=ownsuite.native_for("c04", "C04"),
            workers={"quick": [("plain", 16, "C04")], "thorough": [("plain", 13, "C04"), ("asan", 3, "C04")]},
            deciding=("c04_cells_checked", "c04_engine_cells_compared", "c04_slices_checked"),
            crash_is_violation=True)


def region_sig(dtw_cc, r, c, kw):
    try:
        s = dtw_cc.DTWSettings(window=kw.get("window") or 0)
        p = dtw_cc.DTWWps(r, c, s)
        return "A%dB%dC%dD%d" % (p.ri1 > 0, p.ri2 > p.ri1, p.ri3 > p.ri2, r > p.ri3)
    except Exception:
        return None


def one(ctx, dtw, dtw_cc, np, s1, s2, kw, psi_neg, keep, nd):
    rng = ctx.rng
    r, c = len(s1), len(s2)
    kwn = dict(kw, use_ndim=True) if nd else dict(kw)
    fn = "dtw.warping_paths"
    ctx.current("%s %r %r %r neg=%r keep=%r" % (fn, dtwmon.tolist(s1), dtwmon.tolist(s2), kwn, psi_neg, keep))
    try:
        dP, MP = dtw.warping_paths(s1, s2, psi_neg=psi_neg, keep_int_repr=keep, **kwn)
    except Exception as e:
        ctx.violation("exception", fn=fn, s1=dtwmon.tolist(s1), s2=dtwmon.tolist(s2),
                      settings=dict(dtwmon.settings_key(kwn)), error=repr(e)[:300])
        return
    MPl = MP.tolist()
    ok = wpsmon.check_matrix_vs_ref(ctx, fn, s1, s2, kwn, psi_neg, keep, float(dP), MPl)
    key = (dtwmon.flat(dtwmon.tolist(s1)), dtwmon.flat(dtwmon.tolist(s2)), dtwmon.settings_key(kwn), psi_neg, keep)
    ctx.case(("wps",) + key, min(r, c) >= 2 and dP not in (0, inf))
    # d equals the distance-only routine
    if ok and not keep:
        with monitors.quiet():
            dd = dtw.distance(s1, s2, **kwn)
        if not (dtwmon.near_threshold(float(dd), kw.get("max_dist")) or dtwmon.engines_agree(dP, dd)):
            ctx.violation("distance-vs-distance-routine", fn=fn, s1=dtwmon.tolist(s1), s2=dtwmon.tolist(s2),
                          settings=dict(dtwmon.settings_key(kwn)), wps_d=float(dP), distance=float(dd))
    if not ok:
        return
    if len(ctx.samples) < 2 and (kw.get("window") and kw.get("psi")):
        ctx.sample(dict(fn=fn, s1=dtwmon.tolist(s1), s2=dtwmon.tolist(s2), settings=dict(dtwmon.settings_key(kwn)),
                        d=float(dP), matrix=MPl))
    if not isinstance(kw.get("inner_dist", ""), str):
        return
    sig = region_sig(dtw_cc, r, c, kw)
    if sig:
        ctx.count("region_signature:" + sig)
    # C full
    fn = "dtw.warping_paths_fast"
    ctx.current("%s %r %r %r neg=%r keep=%r" % (fn, dtwmon.tolist(s1), dtwmon.tolist(s2), kwn, psi_neg, keep))
    try:
        dC, MC = dtw.warping_paths_fast(s1, s2, psi_neg=psi_neg, keep_int_repr=keep, **kwn)
    except Exception as e:
        ctx.violation("exception", fn=fn, s1=dtwmon.tolist(s1), s2=dtwmon.tolist(s2),
                      settings=dict(dtwmon.settings_key(kwn)), error=repr(e)[:300])
        return
    MCl = MC.tolist()
    ctx.case(("wps_fast",) + key, min(r, c) >= 2 and dP not in (0, inf))
    if wpsmon.compare_matrices(ctx, fn, s1, s2, kwn, psi_neg, keep, float(dC), MCl, float(dP), MPl):
        msg = wpsmon.neg_marking_ok(MCl, r, c, float(dC), oracle.norm_psi(kw.get("psi")), psi_neg)
        if msg:
            ctx.violation("neg-marking", fn=fn, reason=msg, s1=dtwmon.tolist(s1), s2=dtwmon.tolist(s2),
                          settings=dict(dtwmon.settings_key(kwn)), d=float(dC), lastrow=MCl[r],
                          lastcol=[row[c] for row in MCl])
    # the Cython entry point itself, writing into a caller-owned matrix that still holds old content (a matrix reused
    # across calls): every cell must be (re)written, also those outside the band
    if rng.random() < 0.35:
        fn = "dtw_cc.warping_paths%s(reused output matrix)" % ("_ndim" if nd else "")
        try:
            ckw_ = dtw.DTWSettings.for_dtw(s1, s2, **kwn).c_kwargs()
            out_ = np.full((r + 1, c + 1), rng.choice([0.0, 123.5, -4.0]))
            a1_, a2_ = np.ascontiguousarray(s1, dtype=float), np.ascontiguousarray(s2, dtype=float)
            fcc_ = dtw_cc.warping_paths_ndim if nd else dtw_cc.warping_paths
            dR = fcc_(out_, a1_, a2_, psi_neg=psi_neg, keep_int_repr=keep, **ckw_)
            ctx.count("c04_reused_output_matrix_calls")
            wpsmon.compare_matrices(ctx, fn, s1, s2, kwn, psi_neg, keep, float(dR), out_.tolist(), float(dC), MCl)
        except Exception as e:
            ctx.violation("exception", fn=fn, s1=dtwmon.tolist(s1), s2=dtwmon.tolist(s2),
                          settings=dict(dtwmon.settings_key(kwn)), error=repr(e)[:300])
    # C compact + expansion / slices (psi_neg off: the expander is shared with the affinity matrices)
    fn = "dtw.warping_paths_fast(compact)+wps_expand_slice"
    try:
        dK, MK = dtw.warping_paths_fast(s1, s2, psi_neg=False, keep_int_repr=keep, compact=True, **kwn)
        dP0, MP0 = (dP, MP) if not psi_neg else dtw.warping_paths(s1, s2, psi_neg=False, keep_int_repr=keep, **kwn)
        cs = dtw_cc.DTWSettings(**dtw.DTWSettings.for_dtw(s1, s2, **kwn).c_kwargs())
        slices = [(0, r + 1, 0, c + 1)]
        for _ in range(2):
            rb = rng.randint(0, r)
            cb = rng.randint(0, c)
            slices.append((rb, rng.randint(rb + 1, r + 1), cb, rng.randint(cb + 1, c + 1)))
        for rb, re, cb, ce in slices:
            out = np.full((re - rb, ce - cb), 12345.0)
            ctx.current("%s slice=%r %r %r %r" % (fn, (rb, re, cb, ce), dtwmon.tolist(s1), dtwmon.tolist(s2), kwn))
            dtw_cc.wps_expand_slice(MK, out, r, c, rb, re, cb, ce, cs)
            ref = MP0[rb:re, cb:ce]
            ctx.count("c04_slices_checked")
            A, B = out.tolist(), ref.tolist()
            bad = None
            m = kw.get("max_dist") or None
            for i in range(re - rb):
                for j in range(ce - cb):
                    a, b = A[i][j], B[i][j]
                    gi, gj = rb + i, cb + j
                    if gi == 0 or gj == 0:
                        continue
                    if abs(a) == inf and abs(b) == inf:
                        continue
                    if m is not None or kw.get("use_pruning"):
                        continue   # bound freedoms are judged on the full matrix above
                    if not dtwmon.engines_agree(a, b, ctx):
                        bad = (gi, gj, a, b)
                        break
                if bad:
                    break
            if bad:
                ctx.violation("slice-cell-mismatch", fn=fn, slice=[rb, re, cb, ce], cell=[bad[0], bad[1]],
                              c=bad[2], python=bad[3], s1=dtwmon.tolist(s1), s2=dtwmon.tolist(s2),
                              settings=dict(dtwmon.settings_key(kwn)), keep_int_repr=keep, region=sig)
                break
        if not (dtwmon.near_threshold(float(dP0), kw.get("max_dist")) or dtwmon.engines_agree(dK, dP0)):
            ctx.violation("engine-distance-mismatch", fn=fn, c=float(dK), python=float(dP0),
                          s1=dtwmon.tolist(s1), s2=dtwmon.tolist(s2), settings=dict(dtwmon.settings_key(kwn)))
    except Exception as e:
        ctx.violation("exception", fn=fn, s1=dtwmon.tolist(s1), s2=dtwmon.tolist(s2),
                      settings=dict(dtwmon.settings_key(kwn)), error=repr(e)[:300])


def run(ctx):
    import numpy as np
    from dtaidistance import dtw, dtw_cc
    rng = ctx.rng
    n, npaths, bad = oracle.selfcheck(rng, 100)
    ctx.count("oracle_selfcheck_cases", n)
    if bad:
        raise RuntimeError("reference DP disagrees with enumeration: %r" % (bad,))
    L, W = (6, 6) if ctx.quick else (8, 9)
    idx = 0
    for r, c, w, p in gen.grid_shapes(L, W):
        idx += 1
        if not ctx.mine(idx):
            continue
        s1 = np.array(gen.pattern_series(r, idx % 3))
        s2 = np.array(gen.pattern_series(c, (idx + 1) % 3))
        kw = {}
        if w is not None:
            kw["window"] = w
        if p:
            kw["psi"] = p
        if idx % 2:
            kw["penalty"] = 0.5
        ctx.count("grid_cases")
        one(ctx, dtw, dtw_cc, np, s1, s2, kw, psi_neg=bool(idx % 4 < 2), keep=bool(idx % 3 == 0), nd=0)
    N = ctx.scale(4500, 50000)
    for _ in range(N):
        r, c = rng.randint(1, 11), rng.randint(1, 11)
        if rng.random() < 0.3:
            c = r
        nd = rng.choice([0, 0, 0, 1, 2, 3])
        kind = rng.choice([None, "alpha", "dyadic", "gauss"])
        if nd:
            s1, s2 = np.array(gen.series_nd(rng, r, nd, kind)), np.array(gen.series_nd(rng, c, nd, kind))
        else:
            s1, s2 = np.array(gen.series(rng, r, kind)), np.array(gen.series(rng, c, kind))
        kw = gen.rand_settings(rng, r, c, with_mld=False)
        x = rng.random()
        if x < 0.2:
            kw["max_dist"] = rng.choice([0.5, 1.0, 2.0, 4.0, 9.0])
        elif x < 0.3:
            kw["use_pruning"] = True          # incl. settings under which the Euclidean distance is no upper bound
        if rng.random() < 0.1:
            kw = gen.numpy_typed(kw, rng, np)
            ctx.count("settings_given_as_numpy_scalars")
        ctx.count("random_cases")
        one(ctx, dtw, dtw_cc, np, s1, s2, kw, psi_neg=rng.random() < 0.5, keep=rng.random() < 0.4, nd=nd)
    # scale-up slice: 20-70 point structured series (several shifted rows in the compact layout, long constant runs)
    for _ in range(ctx.scale(40, 400)):
        r = rng.randint(20, 70)
        c = r if rng.random() < 0.3 else max(2, r + rng.choice([-1, 1]) * rng.randint(1, 25))
        nd = rng.choice([0, 0, 2])
        if nd:
            s1 = np.array([[v, 1.0 - v] for v in gen.structured_series(rng, r)])
            s2 = np.array([[v, 1.0 - v] for v in gen.structured_series(rng, c)])
        else:
            s1, s2 = np.array(gen.structured_series(rng, r)), np.array(gen.structured_series(rng, c))
        kw = gen.rand_settings(rng, r, c, with_mld=False)
        if kw.get("window"):
            kw["window"] = rng.choice([1, 2, 3, 5, abs(r - c) + 1, max(r, c) // 3, max(r, c) // 2]) or 1
        ctx.count("long_series_cases")
        one(ctx, dtw, dtw_cc, np, s1, s2, kw, psi_neg=rng.random() < 0.5, keep=rng.random() < 0.4, nd=nd)
