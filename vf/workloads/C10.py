"""C10 — DTW obeys identity, non-negativity, symmetry and option monotonicity."""
from vf import dtwmon, gen, monitors, oracle
from vf.oracle import inf
from vf.runner import Plan

RULE = ("cases = groups of related calls on one engine (Python or C, ndim 0..3): d(s,s)=0, d>=0, d(s1,s2;psi) = "
        "d(s2,s1;psi swapped), d(w) >= d(w+1), d(psi) >= d(psi+1), d(max_step=m) >= d(max_step=m'>m), d(p) <= "
        "d(p'>p), d(window=1, equal length) = Euclidean distance, square distance matrix symmetric with zero "
        "diagonal. No oracle is involved (the laws relate outputs of the library to each other). Seeded random "
        "series (ties, negative, large, length-1, long series up to 200 points for which the reference DP is too "
        "slow) crossing all options. non-trivial = the base distance is finite and non-zero.")
ASSUME = ["inequalities allow 1e-9 relative slack; equalities 16 ulp / 1e-12", "settings inside the quantifier of C01"]
PLAN = Plan("C10", RULE, ASSUME,
            workers={"quick": [("plain", 16, "C10")], "thorough": [("plain", 16, "C10")]},
            deciding=("law:identity", "law:symmetry", "law:window", "law:psi", "law:max_step", "law:penalty",
                      "law:window1_is_euclidean", "law:matrix_symmetric"),
            crash_is_violation=True)


def ge(a, b):
    return a >= b * (1 - 1e-9) - 1e-12 or a == b


def run(ctx):
    import numpy as np
    from dtaidistance import dtw, dtw_ndim, ed
    rng = ctx.rng

    N = ctx.scale(3000, 40000)
    for it in range(N):
        long_ = rng.random() < (0.02 if ctx.quick else 0.04)
        hi = 200 if long_ else 12
        r, c = rng.randint(1, hi), rng.randint(1, hi)
        if long_:
            r, c = rng.randint(40, hi), rng.randint(40, hi)
            if rng.random() < 0.3:
                r, c = rng.randint(257, 340), rng.randint(257, 340)     # beyond 256 points (small-int identity, 8-bit counters)
                ctx.count("series_longer_than_256")
        if rng.random() < 0.3:
            c = r
        nd = rng.choice([0, 0, 0, 1, 2, 3])
        kind = rng.choice([None, "alpha", "dyadic", "neg", "big"])
        if nd:
            s1, s2 = np.array(gen.series_nd(rng, r, nd, kind)), np.array(gen.series_nd(rng, c, nd, kind))
        else:
            s1, s2 = np.array(gen.series(rng, r, kind)), np.array(gen.series(rng, c, kind))
        if rng.random() < 0.25:
            # non-contiguous views of the same data (the laws must hold for every memory layout)
            s1 = np.repeat(s1, 2, axis=0)[::2]
            s2 = (np.repeat(s2, 2, axis=1)[:, ::2] if nd else np.array(list(reversed(s2.tolist())))[::-1])
            ctx.count("strided_view_cases")
        kw = gen.rand_settings(rng, r, c, with_mld=False)
        if nd:
            kw["use_ndim"] = True
        if rng.random() < 0.2:
            # a limit on the length difference is symmetric in the two series and monotone in the limit
            kw["max_length_diff"] = max(1, abs(r - c) + rng.choice([-1, 0, 0, 1]))
            ctx.count("cases_with_max_length_diff")
        if rng.random() < 0.08 and r != c and not nd:
            # aliased arguments: the shorter series is a prefix view of the longer one's buffer
            if r > c:
                s2 = s1[:c]
            else:
                s1 = s2[:r]
            ctx.count("aliased_prefix_view_cases")
        def first(r_):
            return r_[0] if isinstance(r_, tuple) else r_     # a bare inf is returned when max_length_diff is exceeded

        engines = ["py", "c"]
        if not long_:
            # the distance returned next to the accumulated-cost matrix is a DTW distance too (full and compact C storage)
            engines += [rng.choice(["py_wps", "c_wps", "c_wps_compact"])]
        for eng in engines:
            if eng == "py" and long_ and rng.random() < 0.5:
                continue
            if eng == "py":
                f = dtw.distance
            elif eng == "c":
                f = dtw.distance_fast
            elif eng == "py_wps":
                def f(a_, b_, **k_):
                    return first(dtw.warping_paths(a_, b_, **k_))
            elif eng == "c_wps":
                def f(a_, b_, **k_):
                    return first(dtw.warping_paths_fast(a_, b_, **k_))
            else:
                def f(a_, b_, **k_):
                    return first(dtw.warping_paths_fast(a_, b_, compact=True, **k_))
            ctx.count("law_engine:" + eng)

            def d(a, b, **k):
                ctx.current("%s %r %r %r" % (eng, a.tolist(), b.tolist(), k))
                return float(f(a, b, **k))

            def bad(law, **w):
                ctx.violation("law-violated:" + law, engine=eng, s1=s1.tolist(), s2=s2.tolist(), **w)
            try:
                base = d(s1, s2, **kw)
                ctx.case((eng, nd, dtwmon.flat(s1.tolist()), dtwmon.flat(s2.tolist()), dtwmon.settings_key(kw)),
                         base not in (0, inf))
                # identity and non-negativity
                ctx.count("law:identity")
                kws = dict(kw)
                if kws.get("psi") is not None and not isinstance(kws["psi"], int):
                    p = kws["psi"]
                    kws["psi"] = (min(p[0], p[2]),) * 2 + (min(p[0], p[2]),) * 2
                kws["psi"] = None if kws.get("psi") is None else (kws["psi"] if isinstance(kws["psi"], int) and kws["psi"] < r else None)
                z = d(s1, s1.copy(), **kws)
                if z != 0:
                    bad("identity", settings=dict(dtwmon.settings_key(kws)), got=z)
                if len(ctx.samples) < 2 and base not in (0, inf) and min(r, c) >= 3 and not long_:
                    ctx.sample(dict(engine=eng, s1=s1.tolist(), s2=s2.tolist(), settings=dict(dtwmon.settings_key(kw)),
                                    d=base, d_self=z, laws="identity, symmetry, window, psi, max_step, penalty, window1"))
                if base < 0 or base != base:
                    bad("non-negativity", settings=dict(dtwmon.settings_key(kw)), got=base)
                # symmetry with swapped psi
                ctx.count("law:symmetry")
                kwx = dict(kw)
                p = kw.get("psi")
                if p is not None and not isinstance(p, int):
                    kwx["psi"] = (p[2], p[3], p[0], p[1])
                sw = d(s2, s1, **kwx)
                if not dtwmon.engines_agree(sw, base, ctx):
                    bad("symmetry", settings=dict(dtwmon.settings_key(kw)), forward=base, swapped=sw)
                # symmetry under early abandoning with an asymmetric relaxation: series 1 starts with outliers that
                # the begin relaxation of series 1 (only) may skip; a bound (pruning or max_dist above the distance)
                # must not break the law
                if not nd and r >= 3 and c >= 2 and not long_ and rng.random() < 0.35:
                    pb_ = rng.randint(1, r - 1)
                    a_ = np.array(s1, dtype=float)
                    a_[:pb_] += rng.choice([6.0, 10.0, -8.0])
                    kwb = {k_: v_ for k_, v_ in kw.items() if k_ not in ("psi", "max_step", "max_length_diff")}
                    kwb["psi"] = (pb_, rng.choice([0, 0, 1]) if r > 1 else 0, 0, rng.choice([0, 0, 1]) if c > 1 else 0)
                    free_ = d(a_, s2, **kwb)
                    if free_ not in (0.0, inf):
                        if rng.random() < 0.5:
                            kwb["use_pruning"] = True
                        else:
                            kwb["max_dist"] = free_ * rng.choice([1.05, 1.5, 3.0])
                        pq_ = kwb["psi"]
                        fw_ = d(a_, s2, **kwb)
                        sw_ = d(s2, a_, **dict(kwb, psi=(pq_[2], pq_[3], pq_[0], pq_[1])))
                        ctx.count("law:symmetry_under_bounds_with_asymmetric_psi")
                        if not (dtwmon.engines_agree(fw_, sw_, ctx) and dtwmon.engines_agree(fw_, free_, ctx)):
                            bad("symmetry-under-bounds", settings=dict(dtwmon.settings_key(kwb)), forward=fw_, swapped=sw_,
                                unbounded=free_, s1_used=a_.tolist())
                # window
                w = kw.get("window")
                if w is not None:
                    ctx.count("law:window")
                    d2 = d(s1, s2, **dict(kw, window=w + 1))
                    if not ge(base, d2):
                        bad("window-monotone", settings=dict(dtwmon.settings_key(kw)), d_w=base, d_w_plus_1=d2)
                # psi
                p = kw.get("psi")
                pi = 0 if p is None else p
                if isinstance(pi, int) and pi + 1 <= min(r, c) - 1:
                    ctx.count("law:psi")
                    d2 = d(s1, s2, **dict(kw, psi=pi + 1))
                    if not ge(base, d2):
                        bad("psi-monotone", settings=dict(dtwmon.settings_key(kw)), d_psi=base, d_psi_plus_1=d2)
                elif p is not None and not isinstance(p, int):
                    k = rng.randrange(4)
                    lim = (r, r, c, c)[k]
                    q = list(p)
                    if q[k] + 1 <= lim and gen.psi_ok(tuple(q[:k] + [q[k] + 1] + q[k + 1:]), r, c):
                        q[k] += 1
                        ctx.count("law:psi")
                        d2 = d(s1, s2, **dict(kw, psi=tuple(q)))
                        if not ge(base, d2):
                            bad("psi-monotone", settings=dict(dtwmon.settings_key(kw)), d_psi=base, d_psi_plus_1=d2,
                                psi_relaxed=q)
                # max_length_diff
                if kw.get("max_length_diff") is not None:
                    ctx.count("law:max_length_diff")
                    d2 = d(s1, s2, **dict(kw, max_length_diff=kw["max_length_diff"] + 1))
                    d3 = d(s1, s2, **dict(kw, max_length_diff=None))
                    if not (ge(base, d2) and ge(d2, d3)):
                        bad("max_length_diff-monotone", settings=dict(dtwmon.settings_key(kw)), d_l=base, d_l_plus_1=d2, d_off=d3)
                # max_step
                ms = kw.get("max_step")
                if ms:
                    ctx.count("law:max_step")
                    d2 = d(s1, s2, **dict(kw, max_step=ms * rng.choice([1.5, 3.0])))
                    d3 = d(s1, s2, **dict(kw, max_step=None))
                    if not (ge(base, d2) and ge(d2, d3)):
                        bad("max_step-monotone", settings=dict(dtwmon.settings_key(kw)), d_m=base, d_m_larger=d2, d_off=d3)
                # penalty
                ctx.count("law:penalty")
                pn = kw.get("penalty") or 0
                d2 = d(s1, s2, **dict(kw, penalty=pn + rng.choice([0.25, 1.0])))
                if not ge(d2, base):
                    bad("penalty-monotone", settings=dict(dtwmon.settings_key(kw)), d_p=base, d_p_larger=d2)
                # window 1 on equal lengths == Euclidean distance
                if r == c:
                    ctx.count("law:window1_is_euclidean")
                    inner = kw.get("inner_dist", "squared euclidean")
                    e = float(ed.distance(s1, s2, inner_dist=inner, use_ndim=bool(nd)))
                    d1 = d(s1, s2, window=1, inner_dist=inner, use_ndim=bool(nd), penalty=kw.get("penalty"))
                    if not dtwmon.engines_agree(d1, e, ctx):
                        bad("window1-is-euclidean", window1=d1, euclidean=e, inner_dist=inner)
            except Exception as e:
                ctx.violation("exception", engine=eng, error=repr(e)[:300], s1=s1.tolist(), s2=s2.tolist(),
                              settings=dict(dtwmon.settings_key(kw)))
    # square matrices
    M = ctx.scale(300, 3000)
    for _ in range(M):
        k = rng.randint(2, 6)
        nd = rng.choice([0, 0, 2])
        ss = [np.array(gen.series_nd(rng, rng.randint(1, 8), nd)) if nd else np.array(gen.series(rng, rng.randint(1, 8)))
              for _ in range(k)]
        kw = gen.rand_settings(rng, 2, 2, with_mld=False)
        kw.pop("psi", None)
        if not nd and rng.random() < 0.25:
            # short series first, then long ones whose bumps are far apart (wide warps): nothing derived from an early
            # pair (a default window, a buffer size) may survive into later pairs
            def bump_(n_):
                a_ = [0.0] * n_
                p_ = rng.randrange(n_)
                for q_ in range(p_, min(n_, p_ + 3)):
                    a_[q_] = 3.0
                return np.array(a_)
            ss = [np.array(gen.series(rng, rng.randint(2, 4))) for _ in range(rng.randint(1, 2))] + \
                 [bump_(rng.randint(18, 34)) for _ in range(rng.randint(2, 3))]
            k = len(ss)
            kw.pop("window", None)
            kw.pop("max_step", None)
            ctx.count("matrix_short_then_long_collections")
        for use_c in (False, True):
            try:
                f = dtw_ndim.distance_matrix if nd else dtw.distance_matrix
                m = np.asarray(f(ss, use_c=use_c, **kw))
                # symmetry against the single-pair routine with the arguments the other way round
                fd_ = dtw_ndim.distance if nd else dtw.distance
                for _p in range(2):
                    i_, j_ = rng.randrange(k), rng.randrange(k)
                    if i_ != j_:
                        rev_ = float(fd_(ss[max(i_, j_)], ss[min(i_, j_)], use_c=use_c, **kw))
                        ctx.count("law:matrix_entry_equals_reversed_pair")
                        if not dtwmon.engines_agree(float(m[i_, j_]), rev_, ctx):
                            ctx.violation("law-violated:matrix-entry-vs-reversed-pair", use_c=use_c, i=i_, j=j_, entry=float(m[i_, j_]),
                                          reversed_pair=rev_, series=[x.tolist() for x in ss], settings=dict(dtwmon.settings_key(kw)))
                ctx.count("law:matrix_symmetric")
                if not (np.array_equal(m, m.T) and np.all(np.diag(m) == 0) and np.all(m >= 0)):
                    ctx.violation("law-violated:matrix-symmetric", use_c=use_c, matrix=m.tolist(),
                                  settings=dict(dtwmon.settings_key(kw)))
            except Exception as e:
                ctx.violation("exception", fn="distance_matrix", use_c=use_c, error=repr(e)[:300])
