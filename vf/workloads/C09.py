"""C09 — LB_Keogh <= DTW <= Euclidean upper bound, same in both engines."""
import array

from vf import dtwmon, gen, monitors, oracle
from vf.oracle import inf
from vf.runner import Plan
from vf import ownsuite

RULE = ("cases = calls of dtw.lb_keogh (use_c False/True), ed.distance, ed.distance_fast, ed_cc.distance(_ndim), "
        "dtw.ub_euclidean, dtw_ndim.ub_euclidean, dtw_cc.ub_euclidean(_ndim) and distance(only_ub=True) observed by "
        "icontract postconditions: the lower bound is compared with the DTW distance of the same window for several "
        "penalties (no psi) on the same engine, the Euclidean distance with an independent 6-line reference "
        "(last-element padding) and with the penalty-free DTW distance (any window, psi), C with Python. Inputs: all "
        "signs (all-negative, mixed, positive, large), equal/unequal lengths incl. length 1, window None/1..n, both "
        "inner distances, ndim 1..3, series attaining the envelope at the band edge. non-trivial = both lengths >= 2 "
        "and (bound > 0 or lengths differ).")
ASSUME = ["bounds compared with tolerance 1e-9 relative (inequalities) and 16 ulp (engine equality)",
          "lb_keogh is only claimed against DTW without psi-relaxation (as stated)"]
PLAN = Plan("C09", RULE, ASSUME, native=ownsuite.native_for("c09", "C09"),
            workers={"quick": [("plain", 16, "C09")], "thorough": [("plain", 13, "C09"), ("asan", 3, "C09")]},
            deciding=("lb_checks", "ub_checks", "engine_bound_comparisons", "only_ub_checks"),
            crash_is_violation=True)

LE = lambda a, b: a <= b * (1 + 1e-9) + 1e-12


def run(ctx):
    import numpy as np
    from dtaidistance import dtw, dtw_ndim, dtw_cc, ed, ed_cc
    rng = ctx.rng

    def lb_post(a, kw, result, pre):
        (s1, s2), kw = dtwmon.split(a, kw)
        use_c = bool(kw.get("use_c"))
        l1, l2 = dtwmon.tolist(s1), dtwmon.tolist(s2)
        wit = dict(fn="dtw.lb_keogh", use_c=use_c, s1=l1, s2=l2, settings=dict(dtwmon.settings_key(kw)))
        base = {k: v for k, v in kw.items() if k in ("window", "inner_dist")}
        f = dtw.distance_fast if use_c else dtw.distance
        arr = (np.array(l1), np.array(l2)) if use_c else (l1, l2)
        for pen in (None, 0.3, 2.0):
            d = float(f(arr[0], arr[1], penalty=pen, **base))
            ctx.count("lb_checks")
            if not LE(float(result), d):
                ctx.violation("lower-bound-exceeds-dtw", lb=float(result), dtw=d, penalty=pen, **wit)
                break
        ctx.case(("lb", use_c, dtwmon.flat(l1), dtwmon.flat(l2), dtwmon.settings_key(kw)),
                 min(len(l1), len(l2)) >= 2 and float(result) > 0)
        # the documented LB_Keogh value itself (envelope of the second series over the DTW band)
        if isinstance(base.get("inner_dist", "squared euclidean"), str) and l1 and not isinstance(l1[0], list) \
                and not kw.get("max_dist") and not kw.get("max_step"):
            inn_ = oracle.INNER[(base.get("inner_dist", "squared euclidean"), False)]
            want_lb = oracle.ref_lb_keogh(l1, l2, base.get("window"), inn_.dist, inn_.result)
            ctx.count("lb_reference_checks")
            if not oracle.close(float(result), want_lb):
                ctx.violation("lb-differs-from-definition", lb=float(result), reference=want_lb, **wit)
        # engines agree
        try:
            other = dtw.lb_keogh(np.array(l1), np.array(l2), use_c=not use_c, **base)
            ctx.count("engine_bound_comparisons")
            if not dtwmon.engines_agree(result, other, ctx):
                ctx.violation("lb-engines-differ", this=float(result), other=float(other), **wit)
        except Exception as e:
            ctx.violation("exception", error=repr(e)[:300], **wit)

    monitors.attach(ctx, dtw, "lb_keogh", lb_post)

    def check_ed(s1, s2, inner, nd):
        l1, l2 = dtwmon.tolist(s1), dtwmon.tolist(s2)
        inn = oracle.INNER[(inner, bool(nd))]
        ref = oracle.ref_ed(l1, l2, inn.dist, inn.result)
        wit = dict(s1=l1, s2=l2, inner_dist=inner, ndim=nd)
        vals = {}
        calls = [("ed.distance", lambda: ed.distance(s1, s2, inner_dist=inner, use_ndim=bool(nd)))]
        if nd:
            calls += [("dtw_ndim.ub_euclidean", lambda: dtw_ndim.ub_euclidean(s1, s2, inner_dist=inner)),
                      ("ed_cc.distance_ndim", lambda: ed_cc.distance_ndim(s1, s2, inner_dist=0 if inner[0] == "s" else 1))]
            if inner[0] == "s":
                calls.append(("dtw_cc.ub_euclidean_ndim", lambda: dtw_cc.ub_euclidean_ndim(s1, s2)))
        else:
            calls += [("dtw.ub_euclidean", lambda: dtw.ub_euclidean(s1, s2, inner_dist=inner)),
                      ("ed.distance_fast", lambda: ed.distance_fast(s1, s2, inner_dist=inner)),
                      ("ed_cc.distance", lambda: ed_cc.distance(s1, s2, 0 if inner[0] == "s" else 1)),
                      ("ed.distance[list]", lambda: ed.distance(l1, l2, inner_dist=inner)),
                      ("ed.distance_fast[array]", lambda: ed.distance_fast(array.array("d", l1), array.array("d", l2), inner_dist=inner))]
            if inner[0] == "s":
                calls.append(("dtw_cc.ub_euclidean", lambda: dtw_cc.ub_euclidean(s1, s2)))
        for name, f in calls:
            ctx.current("%s %r %r %s" % (name, l1, l2, inner))
            try:
                v = float(f())
            except Exception as e:
                ctx.violation("exception", fn=name, error=repr(e)[:300], **wit)
                continue
            ctx.count("ub_checks")
            ctx.count("engine_bound_comparisons")
            if not oracle.close(v, ref):
                ctx.violation("euclidean-distance-wrong", fn=name, got=v, reference=ref, **wit)
        ctx.case(("ed", inner, nd, dtwmon.flat(l1), dtwmon.flat(l2)), min(len(l1), len(l2)) >= 2 and (ref > 0 or len(l1) != len(l2)))
        return ref

    class Asym:
        """legal user-supplied inner distance that is not symmetric in its arguments"""
        @staticmethod
        def inner_dist(x, y):
            return (x - y) ** 2 if x >= y else 2.0 * (x - y) ** 2

        @staticmethod
        def result(x):
            return x ** 0.5

        @staticmethod
        def inner_val(x):
            return x * x

    for _ in range(ctx.scale(300, 3000)):
        r, c = rng.randint(1, 9), rng.randint(1, 9)
        a_, b_ = gen.series(rng, r, "dyadic"), gen.series(rng, c, "dyadic")
        want_ = oracle.ref_ed(a_, b_, Asym.inner_dist, Asym.result)
        for name_, f_ in (("ed.distance", lambda: ed.distance(a_, b_, inner_dist=Asym)),
                          ("dtw.ub_euclidean", lambda: dtw.ub_euclidean(a_, b_, inner_dist=Asym)),
                          ("dtw.distance(only_ub)", lambda: dtw.distance(a_, b_, only_ub=True, inner_dist=Asym))):
            try:
                v_ = float(f_())
            except Exception as e:
                ctx.violation("exception", fn=name_, error=repr(e)[:300], s1=a_, s2=b_, inner_dist="asymmetric custom object")
                continue
            ctx.count("ub_checks")
            ctx.count("custom_inner_distance_checks")
            if not oracle.close(v_, want_):
                ctx.violation("euclidean-distance-wrong", fn=name_, got=v_, reference=want_, s1=a_, s2=b_,
                              inner_dist="asymmetric custom object")
    N = ctx.scale(9000, 100000)
    for it_ in range(N):
        r, c = rng.randint(1, 12), rng.randint(1, 12)
        if rng.random() < 0.35:
            c = r
        if it_ % 150 == 3:
            r, c = rng.randint(40, 110), rng.randint(40, 110)      # scale-up slice (more than 4096 cells)
            ctx.count("long_series_cases")
        nd = rng.choice([0, 0, 1, 2, 3])
        kind = rng.choice(["neg", "neg", "alpha", "dyadic", "gauss", "big", "mono"])
        inner = rng.choice(["squared euclidean", "euclidean"])
        if nd:
            s1, s2 = np.array(gen.series_nd(rng, r, nd, kind)), np.array(gen.series_nd(rng, c, nd, kind))
        else:
            s1, s2 = np.array(gen.series(rng, r, kind)), np.array(gen.series(rng, c, kind))
            if rng.random() < 0.2:
                s2 = -np.abs(s2) - 1.0       # all-negative envelope
        if rng.random() < 0.12 and r != c:
            # aliased arguments: one series is a prefix view of the other one's buffer (same start address)
            long_ = s1 if r > c else s2
            if r > c:
                s2 = long_[:c]
            else:
                s1 = long_[:r]
            ctx.count("aliased_prefix_view_cases")
        ref = check_ed(s1, s2, inner, nd)
        # ED >= penalty-free DTW (any window / psi), both engines
        w = rng.choice([None, 1, 2, rng.randint(1, max(r, c) + 1)])
        psi = rng.choice([None, None, rng.randint(0, min(r, c) - 1)])
        kw = dict(window=w, psi=psi, inner_dist=inner)
        # only_ub must return the Euclidean distance whatever other options are present
        ubkw = dict(kw)
        if rng.random() < 0.5:
            ubkw["use_pruning"] = True
        if rng.random() < 0.5:
            ubkw["max_dist"] = rng.choice([0.1, 1.0, 3.0, 50.0])
        if rng.random() < 0.3:
            ubkw["penalty"] = rng.choice([0.5, 2.0])
        if rng.random() < 0.2:
            ubkw["max_step"] = rng.choice([1.0, 5.0])
        for eng, f in (("py", dtw.distance), ("c", dtw.distance_fast), ("py->c", lambda a, b, **k: dtw.distance(a, b, use_c=True, **k))):
            try:
                d = float(f(s1, s2, use_ndim=bool(nd), **kw))
                # flags are used for their truth value: a NumPy boolean or 1 is as good as True
                ub = float(f(s1, s2, use_ndim=bool(nd), only_ub=rng.choice([True, True, 1, np.bool_(True)]), **ubkw))
            except Exception as e:
                ctx.violation("exception", fn="distance[%s]" % eng, error=repr(e)[:300], s1=s1.tolist(), s2=s2.tolist(),
                              settings=dict(dtwmon.settings_key(kw)), ndim=nd)
                continue
            ctx.count("ub_checks")
            ctx.count("only_ub_checks")
            if not LE(d, ref):
                ctx.violation("dtw-exceeds-euclidean-bound", engine=eng, dtw=d, ed=ref, s1=s1.tolist(), s2=s2.tolist(),
                              settings=dict(dtwmon.settings_key(kw)), ndim=nd)
            if not oracle.close(ub, ref):
                ctx.violation("only_ub-is-not-the-euclidean-distance", engine=eng, only_ub=ub, ed=ref, s1=s1.tolist(),
                              s2=s2.tolist(), settings=dict(dtwmon.settings_key(ubkw)), ndim=nd)
        # LB_Keogh
        if not nd:
            wl = rng.choice([None, 1, 2, 3, rng.randint(1, max(r, c) + 1)])
            if rng.random() < 0.3:
                # non-contiguous views with the same values (a channel of a time x channel recording, a down-sampled
                # signal): the bound must not depend on the memory layout
                def view_(a_):
                    m_ = np.full((len(a_), 3), 977.0 * (rng.random() - 0.5))
                    m_[:, 1] = a_
                    return m_[:, 1] if rng.random() < 0.5 else np.repeat(a_, 2)[::2]
                wh_ = rng.choice([0, 1, 2])
                s1 = view_(s1) if wh_ in (0, 2) else s1
                s2 = view_(s2) if wh_ in (1, 2) else s2
                ctx.count("lb_keogh_non_contiguous_view_cases")
            for use_c in (False, True):
                ctx.current("lb_keogh use_c=%s %r %r w=%r %s" % (use_c, s1.tolist(), s2.tolist(), wl, inner))
                try:
                    dtw.lb_keogh(s1, s2, window=wl, inner_dist=inner, use_c=use_c)
                except Exception as e:
                    ctx.violation("exception", fn="dtw.lb_keogh", use_c=use_c, error=repr(e)[:300], s1=s1.tolist(),
                                  s2=s2.tolist(), window=wl, inner_dist=inner)
            if len(ctx.samples) < 2 and r >= 3 and c >= 3:
                ctx.sample(dict(s1=s1.tolist(), s2=s2.tolist(), window=wl, inner_dist=inner,
                                lb=float(monitors.orig(dtw, "lb_keogh")(s1, s2, window=wl, inner_dist=inner)),
                                dtw=float(dtw.distance(s1, s2, window=wl, inner_dist=inner)), ed=ref))
