"""Bug-compatible classifiers for the known findings listed in known_findings.json.

A witness is attributed to a finding only if it lies in the finding's input class AND the
library's output equals the output of a model of the defective mechanism."""
from .findings import classifier


@classifier("c05_greedy_backtrack_leaves_neg_chain")
def c05_greedy(w):
    if w.get("kind") not in ("invalid-path", "path-cost-differs-from-distance"):
        return False
    if not w.get("psi_end_active"):
        return False
    st = w.get("settings") or {}
    psi = st.get("psi")
    if not psi:
        return False
    reason = w.get("reason") or ""
    if w.get("kind") == "invalid-path" and not ("does not end in the relaxed corner" in reason or reason == "empty path"):
        return False
    models = w.get("greedy_model_paths") or []
    got = [list(p) for p in (w.get("path") or [])]
    return got in models
