"""Bug-compatible classifiers for the known findings listed in known_findings.json.

A witness is attributed to a finding only if it lies in the finding's input class AND the
library's output equals the output of a model of the defective mechanism."""
from .findings import classifier


@classifier("c05_greedy_backtrack_leaves_neg_chain")
def c05_greedy(w):
    if w.get("kind") not in ("invalid-path", "path-cost-differs-from-distance"):
        return False
    if not w.get("psi_end_active"):
        return False
    st = w.get("settings") or {}
    psi = st.get("psi")
    if not psi:
        return False
    reason = w.get("reason") or ""
    if w.get("kind") == "invalid-path" and not ("does not end in the relaxed corner" in reason or reason == "empty path"):
        return False
    models = w.get("greedy_model_paths") or []
    got = [list(p) for p in (w.get("path") or [])]
    return got in models


@classifier("c19_reciprocal_quantile_a_not_reported")
def c19_recip(w):
    if w.get("kind") != "reapply-differs" or w.get("fn") != "distance_to_similarity":
        return False
    if w.get("method_lower") != "reciprocal" or not w.get("cover_quantile_used") or w.get("explicit_a"):
        return False
    # bug-compatible model: first output = 1/(r + D*a*) with a* from the quantile rule; second = 1/(r + D)
    import math
    kw = w.get("kwargs") or {}
    cq = kw.get("cover_quantile")
    q, target = (cq[0], cq[1]) if isinstance(cq, list) else (cq, 1 - cq)

    def flat(x):
        if isinstance(x, list):
            out = []
            for v in x:
                out += flat(v)
            return out
        return [x]
    D = sorted(flat(w.get("D")))
    if not D:
        return False
    # numpy's default (linear) quantile
    pos = q * (len(D) - 1)
    lo, hi = int(math.floor(pos)), int(math.ceil(pos))
    qv = D[lo] + (D[hi] - D[lo]) * (pos - lo)
    r = w.get("r_reported", 1.0)
    a = (1 - target * r) / (target * qv)
    Dorig = flat(w.get("D"))[:12]
    first, second = w.get("first") or [], w.get("second") or []

    def close(x, y):
        return abs(x - y) <= 1e-9 * max(1.0, abs(x), abs(y))
    return all(close(f, 1.0 / (r + d * a)) for f, d in zip(first, Dorig)) and \
        all(close(s2, 1.0 / (r + d)) for s2, d in zip(second, Dorig))


@classifier("c02_max_length_diff_zero_is_off_in_c")
def c02_mld0(w):
    """Python-style call with max_length_diff=0 and series of different lengths: the Python engine returns inf, the C
    engine returns what the Python engine returns with the limit switched off."""
    if w.get("kind") != "engine-mismatch":
        return False
    st = w.get("settings") or {}
    if st.get("max_length_diff") != 0 or st.get("max_length_diff") is None or isinstance(st.get("max_length_diff"), bool):
        return False
    if len(w.get("s1") or []) == len(w.get("s2") or []):
        return False
    if w.get("python") not in (float("inf"), "inf"):
        return False
    m = w.get("python_with_the_limit_off")
    c = w.get("c")
    if m is None or c is None:
        return False
    m, c = float(m), float(c)
    if w.get("threshold_within_rounding_of_the_distance") and c == float("inf"):
        return True
    return m == c or abs(m - c) <= 1e-12 * max(1.0, abs(m))
