"""Bug-compatible models for the known findings listed in known_findings.json."""
from .findings import classifier  # noqa: F401
