"""Run the repository's unedited test-suite (copied to scratch) under selected monitors."""
import json
import os
import shutil
import subprocess
from pathlib import Path

from . import build, runner


def run(scratch, which, prop, variant="plain", timeout=3000):
    """returns (cov, violations, inconclusive) in the format of Plan.native"""
    tree = build.ensure(variant)
    dst = Path(scratch) / "ownsuite"
    if dst.exists():
        shutil.rmtree(dst)
    shutil.copytree(build.REPO / "tests", dst / "tests", ignore=shutil.ignore_patterns("__pycache__", "*.png", "*.npy"))
    out = str(dst / "result.json")
    env = runner._worker_env(tree, variant, str(dst))
    env["VF_SUITE_MONITORS"] = which
    env["VF_SUITE_OUT"] = out
    r = subprocess.run([runner.PY, "-m", "pytest", "-q", "-p", "vf.pytest_plugin", "-p", "no:cacheprovider", "--timeout=900",
                        "-x" if False else "-q", "tests"], cwd=str(dst), env=env, capture_output=True, text=True,
                       timeout=timeout)
    cov = dict(evaluations=0, nontrivial=[], samples=[], counters={})
    viol, inc = [], []
    if not os.path.exists(out):
        inc.append("own test-suite run produced no monitor result: %s" % (r.stdout + r.stderr)[-500:])
        return cov, viol, inc
    res = json.load(open(out))
    for k, v in res["counters"].items():
        cov["counters"]["suite:" + k] = v
    cov["evaluations"] = res["evaluations"]
    cov["nontrivial"] = ["suite/" + h for h in res["nontrivial"]]
    for w in res["violations"]:
        w["prop"] = w.get("prop") if w.get("prop") not in (None, "suite") else prop
        w["from"] = "repository test-suite under monitors"
        viol.append(w)
    cov["counters"]["suite:pytest_exit"] = r.returncode
    return cov, viol, inc


def native_for(which, prop):
    """Plan.native callable: thorough tier only"""
    def _own_suite(tier, seed, scratch):
        if tier != "thorough":
            return None, None, None
        return run(scratch, which, prop)
    return _own_suite
