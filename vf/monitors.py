"""Attach icontract postconditions/snapshots to the real functions of the repository.

Conditions *record* (ctx.violation) and return True, so the workload keeps running and
library code that catches exceptions cannot swallow a verdict."""
import sys
import threading
import traceback

import icontract

_tls = threading.local()
ORIG = {}          # (modname, fname) -> original callable
ATTACHED = []


def inside():
    return getattr(_tls, "depth", 0) > 0


class quiet:
    """calls made inside this block are not monitored (oracle-side calls)"""

    def __enter__(self):
        _tls.depth = getattr(_tls, "depth", 0) + 1

    def __exit__(self, *a):
        _tls.depth -= 1


def orig(mod, name):
    return ORIG.get((mod.__name__, name), getattr(mod, name))


def attach(ctx, mod, name, post, snap=None, label=None):
    """wrap mod.name with snapshot+ensure; rebind every dtaidistance module attribute that
    *is* the original function (early-bound `from .dtw import distance` style imports)."""
    f = getattr(mod, name)
    key = (mod.__name__, name)
    if key in ORIG:
        f = ORIG[key]
    label = label or "%s.%s" % (mod.__name__.replace("dtaidistance.", ""), name)

    def _snap(_ARGS, _KWARGS):
        if inside() or snap is None:
            return None
        with quiet():
            try:
                return snap(_ARGS, _KWARGS)
            except Exception as e:  # monitor bug => visible, never silent
                ctx.count("monitor_error:" + label)
                ctx.notes.setdefault("monitor_error:" + label, traceback.format_exc()[-1500:])
                return None

    def _post(_ARGS, _KWARGS, result, OLD):
        if inside():
            return True
        with quiet():
            try:
                ctx.count("monitor_evals:" + label)
                post(_ARGS, _KWARGS, result, OLD.pre)
            except Exception as e:
                ctx.count("monitor_error:" + label)
                ctx.notes.setdefault("monitor_error:" + label, traceback.format_exc()[-1500:])
        return True

    wrapped = icontract.snapshot(_snap, name="pre")(icontract.ensure(_post)(f))
    ORIG[key] = f
    current = getattr(mod, name)
    n = 0
    for mname, m in list(sys.modules.items()):
        if m is None or not mname.startswith("dtaidistance"):
            continue
        for attr, val in list(vars(m).items()):
            if val is current or val is f:
                try:
                    setattr(m, attr, wrapped)
                    n += 1
                except Exception:
                    pass
    ATTACHED.append((label, n))
    ctx.count("monitor_bindings:" + label, n)
    return wrapped


def block_numpy():
    """make NumPy unimportable in this process (before dtaidistance is imported)"""
    import importlib.abc
    import os
    os.environ["DTAIDISTANCE_TESTWITHOUTNUMPY"] = "1"

    class _Block(importlib.abc.MetaPathFinder):
        def find_spec(self, fullname, path, target=None):
            if fullname == "numpy" or fullname.startswith("numpy.") or fullname.startswith("scipy") \
                    or fullname.startswith("pandas"):
                raise ImportError("numpy blocked by the verification harness")
            return None

    for k in list(sys.modules):
        if k == "numpy" or k.startswith("numpy."):
            del sys.modules[k]
    sys.meta_path.insert(0, _Block())


class StepLimit(Exception):
    """raised inside library code when a bounded-progress monitor sees too many executed lines"""


class step_bound:
    """Bounded-progress monitor (a *logical* bound, not a wall-clock one): counts LINE events of the given
    code objects with sys.monitoring and raises StepLimit inside the library once `limit` lines were
    executed without the block finishing.  Restates 'the call terminates' as 'terminates within N steps'.
    Instances nest (an outer bound on an iterator, an inner one on a routine it calls)."""
    _tool = None
    _active = {}        # code object -> list of active instances

    def __init__(self, codes, limit):
        self.codes, self.limit, self.n = list(codes), limit, 0

    @staticmethod
    def _on_line(code, line):
        for inst in step_bound._active.get(code, ()):
            inst.n += 1
            if inst.n > inst.limit:
                raise StepLimit("more than %d lines executed in %s" % (inst.limit, code.co_name))

    def __enter__(self):
        mon = sys.monitoring
        if step_bound._tool is None:
            step_bound._tool = mon.PROFILER_ID
            mon.use_tool_id(step_bound._tool, "vf-step-bound")
            mon.register_callback(step_bound._tool, mon.events.LINE, step_bound._on_line)
        for c in self.codes:
            lst = step_bound._active.setdefault(c, [])
            if not lst:
                mon.set_local_events(step_bound._tool, c, mon.events.LINE)
            lst.append(self)
        return self

    def __exit__(self, *a):
        mon = sys.monitoring
        for c in self.codes:
            lst = step_bound._active.get(c, [])
            if self in lst:
                lst.remove(self)
            if not lst:
                step_bound._active.pop(c, None)
                mon.set_local_events(step_bound._tool, c, 0)
        return False


def guard_progress(ctx, mod, name, limit_fn):
    """Persistent bounded-progress guard: every call of mod.name (from anywhere in the library) runs under a
    step bound of limit_fn(args, kwargs) executed lines.  A call that exceeds it raises StepLimit into its caller."""
    f = getattr(mod, name)
    code = getattr(f, "__wrapped__", f).__code__

    def guarded(*a, **k):
        with step_bound([code], limit_fn(a, k)):
            return f(*a, **k)
    guarded.__wrapped__ = getattr(f, "__wrapped__", f)
    guarded.__name__ = name
    n = 0
    for mname, m in list(sys.modules.items()):
        if m is None or not mname.startswith("dtaidistance"):
            continue
        for attr, val in list(vars(m).items()):
            if val is f:
                try:
                    setattr(m, attr, guarded)
                    n += 1
                except Exception:
                    pass
    ctx.count("progress_guards:%s" % name, n)
    return guarded


def guard_backtracking(ctx):
    """best_path / best_path2 visit at most rows + columns cells: bound every call, wherever it comes from
    (warping_path, warp, SubsequenceAlignment, dba)"""
    from dtaidistance import dtw

    def lim(a, k):
        try:
            sh = a[0].shape
            return 400 * (int(sh[0]) + int(sh[1]) + 10)
        except Exception:
            return 400000
    guard_progress(ctx, dtw, "best_path", lim)
    guard_progress(ctx, dtw, "best_path2", lim)
