"""Independent reference models, written from the property statements (numpy-free).

dtw_ref works on *pairs* (i, j): no sentinel row/column, no rolling buffer, no skips.
"""
import itertools
import math

inf = float("inf")


# ---------------------------------------------------------------- point distances
def sq(a, b):
    return (a - b) * (a - b)


def ab(a, b):
    return abs(a - b)


def sq_vec(a, b):
    return sum((x - y) * (x - y) for x, y in zip(a, b))


def eu_vec(a, b):
    return math.sqrt(sum((x - y) * (x - y) for x, y in zip(a, b)))


class Inner:
    """(point distance, result transform, threshold transform)"""

    def __init__(self, name, dist, result, ival):
        self.name, self.dist, self.result, self.ival = name, dist, result, ival


def _sqrt(x):
    return math.sqrt(x) if x != inf else inf


INNER = {
    ("squared euclidean", False): Inner("squared euclidean", sq, _sqrt, lambda x: x * x),
    ("euclidean", False): Inner("euclidean", ab, lambda x: x, lambda x: x),
    ("squared euclidean", True): Inner("squared euclidean", sq_vec, _sqrt, lambda x: x * x),
    ("euclidean", True): Inner("euclidean", eu_vec, lambda x: x, lambda x: x),
}


def band(i, r, c, w):
    """admissible columns of row i: [lo, hi)"""
    lo = max(0, i - max(0, r - c) - w + 1)
    hi = min(c, i + max(0, c - r) + w)
    return lo, hi


def in_band(i, j, r, c, w):
    lo, hi = band(i, r, c, w)
    return lo <= j < hi


def norm_psi(psi):
    if psi is None:
        return (0, 0, 0, 0)
    if hasattr(psi, "item") and not hasattr(psi, "__len__"):
        psi = psi.item()
    if isinstance(psi, int):
        return (psi, psi, psi, psi)
    return tuple(int(x) for x in psi)


def is_start(i, j, psi):
    p1b, _, p2b, _ = psi
    return (j == 0 and i <= p1b) or (i == 0 and j <= p2b)


def is_end(i, j, r, c, psi):
    _, p1e, _, p2e = psi
    return (i == r - 1 and c - 1 - j <= p2e) or (j == c - 1 and r - 1 - i <= p1e)


def ref_matrix(s1, s2, window=None, penalty=0.0, psi=(0, 0, 0, 0), max_step=inf, dist=sq):
    """best[i][j] = minimum internal cost of an admissible partial warping path that
    starts in a psi-relaxed start pair and ends at pair (i, j); inf if none.
    penalty / max_step are given in the internal (inner distance) domain."""
    r, c = len(s1), len(s2)
    w = max(r, c) if window is None else window
    best = [[inf] * c for _ in range(r)]
    for i in range(r):
        lo, hi = band(i, r, c, w)
        for j in range(lo, hi):
            d = dist(s1[i], s2[j])
            if d > max_step:
                continue
            m = inf
            if is_start(i, j, psi):
                m = 0.0
            if i > 0 and j > 0 and best[i - 1][j - 1] < m:
                m = best[i - 1][j - 1]
            if i > 0 and best[i - 1][j] + penalty < m:
                m = best[i - 1][j] + penalty
            if j > 0 and best[i][j - 1] + penalty < m:
                m = best[i][j - 1] + penalty
            best[i][j] = d + m
    return best


def ref_value(best, r, c, psi):
    v = inf
    for j in range(c):
        if is_end(r - 1, j, r, c, psi) and best[r - 1][j] < v:
            v = best[r - 1][j]
    for i in range(r):
        if is_end(i, c - 1, r, c, psi) and best[i][c - 1] < v:
            v = best[i][c - 1]
    return v


def ref_distance(s1, s2, window=None, penalty=None, psi=None, max_step=None,
                 max_length_diff=None, inner="squared euclidean", ndim=False, custom=None):
    """External (result-transformed) DTW distance per the C01 statement."""
    inn = custom if custom is not None else INNER[(inner, ndim)]
    r, c = len(s1), len(s2)
    if max_length_diff is not None and abs(r - c) > max_length_diff:
        return inf
    pen = inn.ival(penalty) if penalty else 0.0
    ms = inn.ival(max_step) if max_step else inf
    p = norm_psi(psi)
    best = ref_matrix(s1, s2, window, pen, p, ms, inn.dist)
    v = ref_value(best, r, c, p)
    return inn.result(v) if v != inf else inf


# --------------------------------------------------- explicit path enumeration
def enum_paths(r, c, w, psi):
    """All admissible warping paths (lists of pairs) for the given shape."""
    out = []

    def ext(path):
        i, j = path[-1]
        if is_end(i, j, r, c, psi):
            out.append(list(path))
        for di, dj in ((1, 1), (1, 0), (0, 1)):
            ni, nj = i + di, j + dj
            if ni < r and nj < c and in_band(ni, nj, r, c, w):
                path.append((ni, nj))
                ext(path)
                path.pop()

    for i in range(r):
        for j in range(c):
            if is_start(i, j, psi) and in_band(i, j, r, c, w):
                ext([(i, j)])
    return out


def path_cost(path, s1, s2, penalty, max_step, dist):
    t = 0.0
    prev = None
    for (i, j) in path:
        d = dist(s1[i], s2[j])
        if d > max_step:
            return inf
        t += d
        if prev is not None and not (i == prev[0] + 1 and j == prev[1] + 1):
            t += penalty
        prev = (i, j)
    return t


def enum_distance(s1, s2, window, penalty, psi, max_step, dist):
    r, c = len(s1), len(s2)
    w = max(r, c) if window is None else window
    best = inf
    n = 0
    for p in enum_paths(r, c, w, psi):
        n += 1
        v = path_cost(p, s1, s2, penalty, max_step, dist)
        if v < best:
            best = v
    return best, n


def count_optimal_paths(s1, s2, window, penalty, psi, max_step, dist, tol=1e-12):
    """Number of admissible complete paths attaining the optimum (DP over pairs)."""
    r, c = len(s1), len(s2)
    w = max(r, c) if window is None else window
    best = ref_matrix(s1, s2, window, penalty, psi, max_step, dist)
    opt = ref_value(best, r, c, psi)
    if opt == inf:
        return 0
    cnt = [[0] * c for _ in range(r)]

    def close(a, b):
        return abs(a - b) <= tol * max(1.0, abs(b))

    for i in range(r):
        for j in range(c):
            if best[i][j] == inf:
                continue
            d = dist(s1[i], s2[j])
            n = 0
            if is_start(i, j, psi) and close(d, best[i][j]):
                n += 1
            if i > 0 and j > 0 and close(best[i - 1][j - 1] + d, best[i][j]):
                n += cnt[i - 1][j - 1]
            if i > 0 and close(best[i - 1][j] + penalty + d, best[i][j]):
                n += cnt[i - 1][j]
            if j > 0 and close(best[i][j - 1] + penalty + d, best[i][j]):
                n += cnt[i][j - 1]
            cnt[i][j] = n
    total = 0
    seen = set()
    for j in range(c):
        if is_end(r - 1, j, r, c, psi) and close(best[r - 1][j], opt):
            total += cnt[r - 1][j]
            seen.add((r - 1, j))
    for i in range(r):
        if (i, c - 1) not in seen and is_end(i, c - 1, r, c, psi) and close(best[i][c - 1], opt):
            total += cnt[i][c - 1]
    return total


# ------------------------------------------------------------- path validation
def validate_path(path, r, c, window, psi, start_cell=None):
    """Return None if `path` is a valid warping path, else a reason string.
    start_cell: if given, the path must end exactly there (custom back-tracking start)."""
    w = max(r, c) if window is None else window
    if not path:
        return "empty path"
    for k, (i, j) in enumerate(path):
        if not (0 <= i < r and 0 <= j < c):
            return "pair %r outside the series" % ((i, j),)
        if not in_band(i, j, r, c, w):
            return "pair %r outside the window band" % ((i, j),)
        if k:
            pi, pj = path[k - 1]
            if (i - pi, j - pj) not in ((1, 1), (1, 0), (0, 1)):
                return "illegal step %r -> %r" % ((pi, pj), (i, j))
    if not is_start(path[0][0], path[0][1], psi):
        return "does not start in the relaxed corner: %r" % (path[0],)
    if start_cell is not None:
        if tuple(path[-1]) != tuple(start_cell):
            return "does not end at requested cell %r: %r" % (start_cell, path[-1])
    elif not is_end(path[-1][0], path[-1][1], r, c, psi):
        return "does not end in the relaxed corner: %r" % (path[-1],)
    return None


# ----------------------------------------------------------------- Euclidean
def ref_ed(s1, s2, dist=sq, result=_sqrt):
    n = min(len(s1), len(s2))
    t = 0.0
    for k in range(max(len(s1), len(s2))):
        a = s1[k] if k < len(s1) else s1[n - 1]
        b = s2[k] if k < len(s2) else s2[n - 1]
        t += dist(a, b)
    return result(t)


def ref_lb_keogh(s1, s2, window=None, dist=sq, result=_sqrt):
    """LB_Keogh of s1 against the envelope of s2 over the DTW band of the two lengths (univariate)"""
    r, c = len(s1), len(s2)
    w = max(r, c) if window is None else window
    t = 0.0
    for i in range(r):
        lo, hi = band(i, r, c, w)
        seg = s2[lo:hi]
        if not seg:
            continue
        u, l = max(seg), min(seg)
        if s1[i] > u:
            t += dist(s1[i], u)
        elif s1[i] < l:
            t += dist(s1[i], l)
    return result(t)


# --------------------------------------------------------------------- helpers
def close(a, b, rel=1e-9, abs_=1e-12):
    if a == b:
        return True
    if a in (inf, -inf) or b in (inf, -inf):
        return False
    if a != a or b != b:
        return False
    return abs(a - b) <= max(abs_, rel * max(abs(a), abs(b)))


def selfcheck(rng, n=300):
    """DP == explicit enumeration on tiny instances.  Returns (#checked, #paths, mismatch|None)."""
    checked = 0
    npaths = 0
    for _ in range(n):
        r, c = rng.randint(1, 4), rng.randint(1, 4)
        s1 = [rng.choice([0, 1, 2, 3, -1, 0.5]) for _ in range(r)]
        s2 = [rng.choice([0, 1, 2, 3, -1, 0.5]) for _ in range(c)]
        window = rng.choice([None, 1, 2, 3])
        pen = rng.choice([0.0, 0.25, 1.0])
        psi = (rng.randint(0, r - 1), rng.randint(0, r - 1), rng.randint(0, c - 1), rng.randint(0, c - 1)) \
            if rng.random() < 0.6 else (0, 0, 0, 0)
        ms = rng.choice([inf, inf, 1.0, 4.0])
        dist = rng.choice([sq, ab])
        best = ref_matrix(s1, s2, window, pen, psi, ms, dist)
        v = ref_value(best, r, c, psi)
        e, n_ = enum_distance(s1, s2, window, pen, psi, ms, dist)
        npaths += n_
        checked += 1
        if not close(v, e):
            return checked, npaths, dict(s1=s1, s2=s2, window=window, pen=pen, psi=psi, ms=ms,
                                         dist=dist.__name__, dp=v, enum=e)
    return checked, npaths, None


def ref_best_path(s1, s2, window=None, penalty=0.0, psi=(0, 0, 0, 0), max_step=inf, dist=sq):
    """one optimal admissible path (list of pairs) or None; penalty/max_step in the internal domain"""
    r, c = len(s1), len(s2)
    best = ref_matrix(s1, s2, window, penalty, psi, max_step, dist)
    opt = ref_value(best, r, c, psi)
    if opt == inf:
        return None
    end = None
    for j in range(c):
        if is_end(r - 1, j, r, c, psi) and close(best[r - 1][j], opt, 1e-12):
            end = (r - 1, j)
            break
    if end is None:
        for i in range(r):
            if is_end(i, c - 1, r, c, psi) and close(best[i][c - 1], opt, 1e-12):
                end = (i, c - 1)
                break
    i, j = end
    path = [(i, j)]
    while True:
        d = dist(s1[i], s2[j])
        v = best[i][j]
        if is_start(i, j, psi) and close(d, v, 1e-12):
            break
        if i > 0 and j > 0 and close(best[i - 1][j - 1] + d, v, 1e-12):
            i, j = i - 1, j - 1
        elif i > 0 and close(best[i - 1][j] + penalty + d, v, 1e-12):
            i -= 1
        elif j > 0 and close(best[i][j - 1] + penalty + d, v, 1e-12):
            j -= 1
        else:
            return None
        path.append((i, j))
    path.reverse()
    return path
