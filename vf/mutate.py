"""Operator-level mutation run: a measuring stick for the monitors, not a registered check.

Every mutant is a one-token change (comparison, +/-, and/or, min/max, 0/1 constant) inside the functions a
property is anchored in.  The mutant is written into a scratch worktree of /repo (never /repo itself), the quick
checks of the properties mapped to that function run against it (VERIF_REPO=<worktree>) and the first check that
exits 1 with a VIOLATION line kills it.  Survivors are listed for manual triage (equivalent mutant, outside every
property, or a gap of the workload).

usage: python -m vf.mutate --worktree /tmp/wtM --out mutation/results.jsonl --per-target 40 [--seed 1] [target ...]
"""
import argparse
import ast
import json
import os
import random
import subprocess
import sys
import time
from pathlib import Path

VERIF = Path(__file__).resolve().parent.parent

# file -> list of (function names or None for all, properties whose quick check must notice a change there)
TARGETS = {
    "dtw_distance": ("src/dtaidistance/dtw.py", ["distance", "set_max_dist", "__init__", "c_kwargs", "for_dtw"], ["C01", "C03", "C10", "C02"]),
    "dtw_wps": ("src/dtaidistance/dtw.py", ["warping_paths", "warping_paths_fast"], ["C04", "C03", "C05"]),
    "dtw_path": ("src/dtaidistance/dtw.py", ["best_path", "best_path2", "warping_path", "warping_path_fast", "warp"], ["C05", "C13", "C12"]),
    "dtw_lb": ("src/dtaidistance/dtw.py", ["lb_keogh", "ub_euclidean"], ["C09", "C14"]),
    "dtw_matrix": ("src/dtaidistance/dtw.py", ["distance_matrix", "distance_matrix_python", "_complete_block", "_distance_matrix_idxs",
                                               "_distance_matrix_length", "distances_array_to_matrix", "distance_array_index",
                                               "distance_matrix_fast"], ["C06", "C07"]),
    "dtw_affinity": ("src/dtaidistance/dtw.py", ["warping_paths_affinity", "warping_paths_affinity_fast"], ["C18"]),
    "ed": ("src/dtaidistance/ed.py", None, ["C09"]),
    "innerdistance": ("src/dtaidistance/innerdistance.py", None, ["C01", "C11"]),
    "dtw_ndim": ("src/dtaidistance/dtw_ndim.py", None, ["C11"]),
    "barycenter": ("src/dtaidistance/dtw_barycenter.py", ["dba_loop", "dba", "get_good_c"], ["C12", "C16"]),
    "subsequencealignment": ("src/dtaidistance/subsequence/subsequencealignment.py", None, ["C13"]),
    "subsequencesearch": ("src/dtaidistance/subsequence/subsequencesearch.py", None, ["C14"]),
    "localconcurrences": ("src/dtaidistance/subsequence/localconcurrences.py",
                          ["align", "_reset_wp_mask", "kbest_matches", "kbest_matches_store", "best_path", "path", "__init__"], ["C18"]),
    "hierarchical": ("src/dtaidistance/clustering/hierarchical.py", ["fit", "__init__", "merge_hook", "newhook", "create_weighthook",
                                                                      "create_orderhook", "_size_cond", "get_linkage", "maxnode"], ["C15"]),
    "kmeans": ("src/dtaidistance/clustering/kmeans.py", ["fit", "fit_fast", "kmeansplusplus_centers", "_distance_with_params",
                                                         "_distance_ndim_with_params", "_distance_c_with_params",
                                                         "_distance_ndim_c_with_params", "_dba_loop_with_params", "__init__"], ["C16"]),
    "alignment": ("src/dtaidistance/alignment.py", None, ["C17"]),
    "dp": ("src/dtaidistance/dp.py", ["dp"], ["C17"]),
    "similarity": ("src/dtaidistance/similarity.py", None, ["C19"]),
    "util_container": ("src/dtaidistance/util.py", ["__init__", "c_data_compat", "wrap", "__getitem__", "__len__", "detect_ndim"], ["C20", "C06"]),
    "util_numpy": ("src/dtaidistance/util_numpy.py", ["verify_np_array"], ["C20", "C10"]),
}

CMP = {ast.Lt: "<", ast.LtE: "<=", ast.Gt: ">", ast.GtE: ">=", ast.Eq: "==", ast.NotEq: "!="}
CMP_SWAP = {"<": ["<="], "<=": ["<"], ">": [">="], ">=": [">"], "==": ["!="], "!=": ["=="]}


def sites(path, funcs):
    """yield (lineno, col_start, col_end, old, new, kind, function) for single-line one-token mutations"""
    src = path.read_text()
    lines = src.split("\n")
    tree = ast.parse(src)
    out = []

    def between(line, a, b, tok):
        seg = line[a:b]
        k = seg.find(tok)
        if k < 0:
            return None
        # make sure we do not hit '<' of '<=' etc.
        if tok in ("<", ">") and seg[k:k + 2] in ("<=", ">="):
            return None
        return a + k, a + k + len(tok)

    def visit(node, fname):
        for child in ast.iter_child_nodes(node):
            if isinstance(child, (ast.FunctionDef, ast.AsyncFunctionDef)):
                visit(child, child.name)
                continue
            if isinstance(child, ast.ClassDef):
                visit(child, fname)
                continue
            if fname is not None and (funcs is None or fname in funcs):
                collect(child, fname)
            visit(child, fname)

    def collect(n, fname):
        ln = getattr(n, "lineno", None)
        if ln is None or getattr(n, "end_lineno", ln) != ln:
            return
        line = lines[ln - 1]
        if line.lstrip().startswith(("logger.", "print(", "raise ", "assert ", "#", '"""')):
            return
        if isinstance(n, ast.Compare) and len(n.ops) == 1 and type(n.ops[0]) in CMP:
            tok = CMP[type(n.ops[0])]
            sp = between(line, n.left.end_col_offset, n.comparators[0].col_offset, tok)
            if sp:
                for new in CMP_SWAP[tok]:
                    out.append((ln, sp[0], sp[1], tok, new, "cmp", fname))
        elif isinstance(n, ast.BinOp) and isinstance(n.op, (ast.Add, ast.Sub)):
            tok = "+" if isinstance(n.op, ast.Add) else "-"
            sp = between(line, n.left.end_col_offset, n.right.col_offset, tok)
            if sp:
                out.append((ln, sp[0], sp[1], tok, "-" if tok == "+" else "+", "arith", fname))
            if isinstance(n.right, ast.Constant) and n.right.value == 1 and type(n.right.value) is int:
                out.append((ln, n.right.col_offset, n.right.end_col_offset, "1", "0", "const", fname))
        elif isinstance(n, ast.BoolOp) and len(n.values) == 2:
            tok = "and" if isinstance(n.op, ast.And) else "or"
            sp = between(line, n.values[0].end_col_offset, n.values[1].col_offset, tok)
            if sp:
                out.append((ln, sp[0], sp[1], tok, "or" if tok == "and" else "and", "bool", fname))
        elif isinstance(n, ast.Call) and isinstance(n.func, ast.Name) and n.func.id in ("min", "max") and len(n.args) >= 2:
            out.append((ln, n.func.col_offset, n.func.end_col_offset, n.func.id, "max" if n.func.id == "min" else "min", "minmax", fname))
        elif isinstance(n, ast.Subscript) and isinstance(n.slice, ast.Constant) and n.slice.value in (0, 1) \
                and type(n.slice.value) is int and isinstance(n.ctx, ast.Load):
            out.append((ln, n.slice.col_offset, n.slice.end_col_offset, str(n.slice.value), str(1 - n.slice.value), "index", fname))

    visit(tree, None)
    # de-duplicate
    seen, uniq = set(), []
    for s in out:
        if s[:5] not in seen:
            seen.add(s[:5])
            uniq.append(s)
    return lines, uniq


def run_check(prop, worktree, cache, scale, timeout):
    env = dict(os.environ)
    env.update(VERIF_REPO=str(worktree), VERIF_CACHE=str(cache), VF_SCALE=str(scale), VF_WORKER_TIMEOUT="150", VF_STOP_AFTER="120", VF_OUT_DIR=str(Path(cache) / "out"))
    try:
        r = subprocess.run([str(VERIF / "check"), prop, "quick"], env=env, capture_output=True, text=True, timeout=timeout)
    except subprocess.TimeoutExpired:
        return 2, "timeout"
    kinds = sorted(set(l.split('"kind": "')[1].split('"')[0] for l in r.stdout.splitlines() if '"kind": "' in l))
    viol = sum(1 for l in r.stdout.splitlines() if l.startswith("VIOLATION"))
    return (1 if (r.returncode == 1 and viol) else r.returncode), ",".join(kinds)[:200]


def main():
    ap = argparse.ArgumentParser()
    ap.add_argument("--worktree", required=True)
    ap.add_argument("--out", required=True)
    ap.add_argument("--per-target", type=int, default=30)
    ap.add_argument("--seed", type=int, default=1)
    ap.add_argument("--scale", type=float, default=0.4)
    ap.add_argument("--cache", default="/var/tmp/mutcache")
    ap.add_argument("targets", nargs="*")
    a = ap.parse_args()
    wt = Path(a.worktree)
    outp = Path(a.out)
    outp.parent.mkdir(parents=True, exist_ok=True)
    rng = random.Random(a.seed)
    for tname in (a.targets or list(TARGETS)):
        rel, funcs, props = TARGETS[tname]
        path = wt / rel
        orig = path.read_text()
        lines, ss = sites(path, funcs)
        rng.shuffle(ss)
        for (ln, c0, c1, old, new, kind, fn) in ss[: a.per_target]:
            line = lines[ln - 1]
            assert line[c0:c1] == old, (line, c0, c1, old)
            mut = line[:c0] + new + line[c1:]
            ml = list(lines)
            ml[ln - 1] = mut
            path.write_text("\n".join(ml))
            rec = dict(target=tname, file=rel, function=fn, line=ln, kind=kind, before=line.strip(), after=mut.strip(), checks={})
            t0 = time.time()
            try:
                compile("\n".join(ml), rel, "exec")
                killed = None
                for p in props:
                    rc, kinds = run_check(p, wt, a.cache, a.scale, 1500)
                    rec["checks"][p] = dict(rc=rc, kinds=kinds)
                    if rc == 1:
                        killed = p
                        break
                rec["result"] = "killed" if killed else ("inconclusive" if any(v["rc"] == 2 for v in rec["checks"].values()) else "survived")
                rec["killed_by"] = killed
            except SyntaxError as e:
                rec["result"] = "invalid"
            finally:
                path.write_text(orig)
            rec["seconds"] = round(time.time() - t0, 1)
            with open(outp, "a") as f:
                f.write(json.dumps(rec) + "\n")
            print(tname, fn, ln, kind, repr(old), "->", repr(new), rec["result"], rec.get("killed_by"), rec["seconds"], flush=True)


if __name__ == "__main__":
    main()
