"""Seeded generators and exhaustive small grids."""
import itertools

ALPHA = [0.0, 1.0, 2.0, 3.0, -1.0, -2.0, 0.5]


def series(rng, n, kind=None):
    kind = kind or rng.choice(["alpha", "alpha", "dyadic", "gauss", "flat", "mono", "neg", "big", "small"])
    if kind == "alpha":
        return [rng.choice(ALPHA) for _ in range(n)]
    if kind == "dyadic":
        return [rng.randint(-32, 32) / 8.0 for _ in range(n)]
    if kind == "gauss":
        return [rng.gauss(0, 1) for _ in range(n)]
    if kind == "flat":
        k = rng.randint(0, n)
        v = rng.choice(ALPHA)
        return [v] * k + [rng.choice(ALPHA) for _ in range(n - k)]
    if kind == "mono":
        x = rng.randint(-3, 3) * 0.5
        out = []
        for _ in range(n):
            out.append(x)
            x += rng.choice([0, 0.5, 1.0])
        return out
    if kind == "neg":
        return [-abs(rng.gauss(2, 1)) - 0.25 for _ in range(n)]
    if kind == "big":
        return [rng.uniform(-1e3, 1e3) for _ in range(n)]
    if kind == "small":
        return [rng.gauss(0, 0.05) for _ in range(n)]
    raise ValueError(kind)


def series_nd(rng, n, d, kind=None):
    """values with dimension-specific offsets so that a stride error changes the result"""
    cols = [series(rng, n, kind) for _ in range(d)]
    return [[cols[k][i] + 10.0 * k * (kind != "big") for k in range(d)] for i in range(n)]


def pattern_series(n, which):
    if which == 0:
        return [float((i * 7) % 5) - 1.0 for i in range(n)]
    if which == 1:
        return [float((i * 3 + 1) % 4) * 0.5 for i in range(n)]
    return [float((i * i + which) % 6) - 2.5 for i in range(n)]


def psi_ok(psi, r, c):
    """inside the quantifier: entries <= length, no empty alignment"""
    if psi is None:
        return True
    if isinstance(psi, int):
        psi = (psi, psi, psi, psi)
    p1b, p1e, p2b, p2e = psi
    if p1b > r or p1e > r or p2b > c or p2e > c or min(psi) < 0:
        return False
    if (p1b >= r and p2e >= c) or (p2b >= c and p1e >= r):
        return False
    return True


def rand_psi(rng, r, c, full=False):
    x = rng.random()
    if x < 0.35:
        return None
    if x < 0.45:
        return 0
    hi1, hi2 = (r, c) if full else (r - 1, c - 1)
    if x < 0.7:
        p = rng.randint(0, min(hi1, hi2))
    else:
        p = (rng.randint(0, hi1), rng.randint(0, hi1), rng.randint(0, hi2), rng.randint(0, hi2))
        if rng.random() < 0.3:
            p = list(p)
    if not psi_ok(tuple(p) if isinstance(p, list) else p, r, c):
        return rand_psi(rng, r, c, full)
    return p


def rand_settings(rng, r, c, inner=("squared euclidean", "euclidean"), psi_full=False,
                  with_max_step=True, with_mld=True):
    s = {}
    m = max(r, c)
    x = rng.random()
    if x < 0.3:
        pass
    elif x < 0.4:
        s["window"] = None
    else:
        s["window"] = rng.randint(1, m + 1)
    x = rng.random()
    if x < 0.4:
        pass
    elif x < 0.5:
        s["penalty"] = rng.choice([None, 0, 0.0])
    else:
        s["penalty"] = rng.choice([0.1, 0.25, 0.5, 1.0, 2.0, 3.5])
    p = rand_psi(rng, r, c, psi_full)
    if p is not None or rng.random() < 0.2:
        s["psi"] = p
    if with_max_step:
        x = rng.random()
        if x < 0.65:
            pass
        elif x < 0.72:
            s["max_step"] = rng.choice([None, 0])
        else:
            s["max_step"] = rng.choice([0.5, 1.0, 1.5, 2.0, 3.0, 10.0])
    if with_mld and rng.random() < 0.12:
        s["max_length_diff"] = rng.choice([None, 1, 2, 5])
    if len(inner) > 1 and rng.random() < 0.4:
        s["inner_dist"] = rng.choice(inner)
    elif rng.random() < 0.1:
        s["inner_dist"] = inner[0]
    return s


def grid_shapes(maxlen, maxwin):
    """complete (len1, len2, window, psi) grid"""
    for r in range(1, maxlen + 1):
        for c in range(1, maxlen + 1):
            for w in [None] + list(range(1, maxwin + 1)):
                for p in range(0, min(r, c)):
                    yield r, c, w, p


def psi_tuples(r, c, rng, k):
    out = []
    tries = 0
    while len(out) < k and tries < 50:
        tries += 1
        p = (rng.randint(0, r), rng.randint(0, r), rng.randint(0, c), rng.randint(0, c))
        if psi_ok(p, r, c):
            out.append(p)
    return out


def containers_1d(rng, s, np=None):
    """the same numeric content in another documented container"""
    import array
    kinds = ["list", "array", "tuple"]
    if np is not None:
        kinds += ["np", "np", "np_strided", "np_rev"]
    k = rng.choice(kinds)
    if k == "list":
        return list(s), k
    if k == "tuple":
        return tuple(s), k
    if k == "array":
        return array.array("d", s), k
    if k == "np":
        return np.array(s, dtype=np.double), k
    if k == "np_strided":
        a = np.zeros(2 * len(s), dtype=np.double)
        a[::2] = s
        a[1::2] = 777.0
        return a[::2], k
    if k == "np_rev":
        return np.array(list(reversed(s)), dtype=np.double)[::-1], k
    raise ValueError(k)


def numpy_typed(kw, rng, np):
    """the same settings with NumPy scalar types (np.int64 / np.float64 / np.bool_) and psi as a list: option values
    are used for their numeric / truth value, whatever their Python type"""
    out = {}
    for k, v in kw.items():
        if isinstance(v, bool):
            out[k] = np.bool_(v) if rng.random() < 0.5 else v
        elif isinstance(v, int):
            out[k] = rng.choice([np.int64, np.int32])(v)
        elif isinstance(v, float):
            out[k] = np.float64(v)
        elif isinstance(v, tuple) and k == "psi":
            out[k] = [np.int64(x) for x in v] if rng.random() < 0.5 else list(v)
        else:
            out[k] = v
    return out


def structured_series(rng, n, kind=None):
    """longer series with structure that small random data never has: constant runs, exact periodicity, ramps,
    a pattern and its shifted / scaled copy, plateaus at the boundaries"""
    kind = kind or rng.choice(["runs", "periodic", "ramp", "pulse", "steps", "walk"])
    if kind == "runs":
        out = []
        while len(out) < n:
            out += [float(rng.choice([0, 0, 1, 2, -1, 0.5]))] * rng.randint(1, 9)
        return out[:n]
    if kind == "periodic":
        p = [float(rng.choice([0, 1, 2, 3, -1])) for _ in range(rng.randint(2, 7))]
        ph = rng.randrange(len(p))
        return [p[(i + ph) % len(p)] for i in range(n)]
    if kind == "ramp":
        a = rng.choice([0.25, 0.5, 1.0])
        return [a * (i // rng.choice([1, 1, 2, 3])) for i in range(n)]
    if kind == "pulse":
        out = [0.0] * n
        for _ in range(rng.randint(1, 3)):
            p = rng.randrange(n)
            for k, v in enumerate([1.0, 3.0, 1.5]):
                if p + k < n:
                    out[p + k] = v
        return out
    if kind == "steps":
        lv, out = 0.0, []
        for i in range(n):
            if rng.random() < 0.08:
                lv += rng.choice([-2.0, -1.0, 1.0, 2.0])
            out.append(lv)
        return out
    x, out = 0.0, []
    for i in range(n):
        x += rng.choice([-0.5, 0.0, 0.0, 0.5])
        out.append(x)
    return out
