"""Parent side of a check: build, fan out workers, aggregate, classify, write evidence."""
import hashlib
import json
import os
import re
import shutil
import signal
import subprocess
import sys
import tempfile
import time
from pathlib import Path

from . import build, findings

VERIF = Path(__file__).resolve().parent.parent
# evidence/ and replays/ live in /verif; runs against scratch copies of the repository (seeded changes, mutants)
# set VF_OUT_DIR so that they do not overwrite the evidence of the real tree
OUT = Path(os.environ.get("VF_OUT_DIR") or VERIF)
PY = "/venv/bin/python"
NCPU = min(16, os.cpu_count() or 4)


def seed_from_env():
    try:
        return int(os.environ.get("VERIF_SEED", "0"))
    except ValueError:
        return int(hashlib.sha256(os.environ["VERIF_SEED"].encode()).hexdigest()[:8], 16)


class Plan:
    """what a property's check runs"""

    def __init__(self, prop, rule, assumptions, workers, deciding=(), level="exploration",
                 min_nontrivial=2, native=None, crash_is_violation=False, exhaustive=False,
                 timeout=None, post=None, only_kinds=None):
        self.prop, self.rule, self.assumptions = prop, rule, assumptions
        self.workers = workers          # list of (variant, nshards) per tier: dict tier -> list
        self.deciding = deciding        # counters that must be > 0 else inconclusive
        self.level = level
        self.min_nontrivial = min_nontrivial
        self.native = native            # optional callable(tier, seed, scratch, results) -> dict merged in
        self.crash_is_violation = crash_is_violation
        self.exhaustive = exhaustive
        self.timeout = timeout or {"quick": 900, "thorough": 7200}
        self.post = post
        self.only_kinds = only_kinds    # keep only violations whose kind starts with one of these


def _worker_env(tree, variant, logdir):
    env = dict(os.environ)
    env["PYTHONPATH"] = os.pathsep.join([str(tree / "src"), str(VERIF / ".deps"), str(VERIF)])
    env["PYTHONHASHSEED"] = "0"
    env["PYTHONDONTWRITEBYTECODE"] = "1"
    env["VF_TREE"] = str(tree)
    env["VF_VARIANT"] = variant
    env.setdefault("OMP_NUM_THREADS", "2")
    env["MPLBACKEND"] = "Agg"
    if variant.split("-")[0] == "asan":
        env["LD_PRELOAD"] = build.libasan()
        env["ASAN_OPTIONS"] = "detect_leaks=0:halt_on_error=0:abort_on_error=0:redzone=128:log_path=%s/asan" % logdir
        env["UBSAN_OPTIONS"] = "print_stacktrace=1:halt_on_error=0:log_path=%s/ubsan" % logdir
    return env


def run_workers(prop, tier, seed, specs, scratch, timeout):
    """specs: list of (variant, nshards, propmodule) ; returns list of result dicts"""
    procs = []
    results = []
    trees = {}
    for variant, nshards, mod in specs:
        if variant not in trees:
            trees[variant] = build.ensure(variant.split("-")[0])
    pending = []
    for variant, nshards, mod in specs:
        for sh in range(nshards):
            pending.append((variant, nshards, mod, sh))
    running = []
    t_end = time.time() + timeout
    idx = 0
    while pending or running:
        while pending and len(running) < NCPU:
            variant, nshards, mod, sh = pending.pop(0)
            logdir = Path(scratch) / ("%s-%s-%d" % (mod, variant, sh))
            logdir.mkdir(parents=True, exist_ok=True)
            out = str(logdir / "result.json")
            env = _worker_env(trees[variant], variant, logdir)
            cmd = [PY, "-m", "vf.worker", mod, str(sh), str(nshards), str(seed), tier, variant, out]
            if os.environ.get("VF_COVERAGE") and variant == "plain":
                # development aid (never used by a registered command): line coverage of the library under the workload
                cmd = [PY, "-m", "coverage", "run", "-p", "--data-file=%s/cov" % os.environ["VF_COVERAGE"],
                       "--source=dtaidistance", "-m", "vf.worker"] + cmd[3:]
            errf = open(logdir / "stderr.txt", "w")
            p = subprocess.Popen(cmd, cwd=str(VERIF), env=env, stdout=errf, stderr=subprocess.STDOUT,
                                 start_new_session=True)
            running.append((p, variant, mod, sh, logdir, out, errf))
        time.sleep(0.05)
        still = []
        for item in running:
            p, variant, mod, sh, logdir, out, errf = item
            rc = p.poll()
            if rc is None:
                if time.time() > t_end:
                    try:
                        os.killpg(p.pid, signal.SIGKILL)
                    except OSError:
                        pass
                    p.wait()
                    rc = "timeout"
                else:
                    still.append(item)
                    continue
            errf.close()
            res = None
            if os.path.exists(out):
                try:
                    res = json.load(open(out))
                except Exception:
                    res = None
            if res is None:
                res = dict(prop=mod, shard=sh, variant=variant, status="died", evaluations=0, nontrivial=[],
                           counters={}, samples=[], violations=[], viol_counts={}, reached=[], notes={}, wall=0,
                           maxulp=0)
            res["rc"] = rc
            res["logdir"] = str(logdir)
            res["mod"] = mod
            if rc == "timeout":
                res["status"] = "timeout"
            elif rc != 0 and res["status"] == "ok":
                res["status"] = "died"
            if res["status"] != "ok":
                try:
                    res["stderr_tail"] = (logdir / "stderr.txt").read_text(errors="replace")[-3000:]
                except Exception:
                    res["stderr_tail"] = ""
                cur = Path(out + ".cur")
                if cur.exists():
                    res["current_case"] = cur.read_text(errors="replace").strip()[:2000]
            # sanitizer logs
            san = []
            for lf in sorted(logdir.glob("asan.*")) + sorted(logdir.glob("ubsan.*")):
                san.append(lf.read_text(errors="replace"))
            # UBSan without log_path support prints to stderr
            res["san_logs"] = san
            results.append(res)
        running = still
    return results


_REPO_FRAME = re.compile(r"#\d+ 0x[0-9a-f]+ in (\S+) (\S*(?:dd_[a-z_]+\.c|dtw_cc[a-z_]*\.c|ed_cc\.c|"
                         r"util_numpy_cc\.c|\.pyx)):(\d+)")


def parse_sanitizer(blob):
    """yield dicts(kind, where, text) for ASan report blocks and UBSan runtime errors"""
    out = []
    if not blob:
        return out
    for m in re.finditer(r"ERROR: AddressSanitizer: (\S+)", blob):
        text = blob[m.start(): m.start() + 4000]
        fm = _REPO_FRAME.search(text)
        where = "%s %s:%s" % (fm.group(1), os.path.basename(fm.group(2)), fm.group(3)) if fm else "?"
        if fm is None and "dd_" not in text and "dtaidistance" not in text:
            continue
        out.append(dict(kind=m.group(1), where=where, text=text))
    for m in re.finditer(r"(\S+\.(?:c|h|pyx)):(\d+):\d+: runtime error: ([^\n]*)", blob):
        f = os.path.basename(m.group(1))
        if not (f.startswith("dd_") or f.startswith("dtw_cc") or f.startswith("ed_cc")):
            continue
        out.append(dict(kind="ubsan", where="%s:%s %s" % (f, m.group(2), m.group(3)[:60]),
                        text=blob[m.start(): m.start() + 1500]))
    return out


def save_replay(prop, w):
    d = OUT / "replays" / prop
    d.mkdir(parents=True, exist_ok=True)
    blob = json.dumps(w, sort_keys=True, default=str)
    name = hashlib.sha256(blob.encode()).hexdigest()[:16] + ".json"
    p = d / name
    p.write_text(json.dumps(w, indent=1, sort_keys=True, default=str))
    return str(p)


def finish(plan, tier, seed, t0, results, extra_cov=None, extra_viol=None, inconclusive=None):
    """aggregate, classify, write evidence, print verdict, return exit code"""
    prop = plan.prop
    known = findings.load().get("known", [])
    evaluations = sum(r["evaluations"] for r in results)
    nontrivial = set()
    counters = {}
    reached = set()
    samples = []
    viols = list(extra_viol or [])
    viol_counts = {}
    notes = {}
    maxulp = 0
    bad_workers = []
    for r in results:
        nontrivial.update(r["nontrivial"])
        for k, v in r["counters"].items():
            counters[k] = counters.get(k, 0) + v
        reached.update(r["reached"])
        if len(samples) < 6:
            samples.extend(r["samples"][:2])
        viols.extend(r["violations"])
        for k, v in r["viol_counts"].items():
            viol_counts[k] = viol_counts.get(k, 0) + v
        for k, v in (r.get("notes") or {}).items():
            notes.setdefault(k, v)
        maxulp = max(maxulp, r.get("maxulp", 0))
        if r["status"] != "ok":
            bad_workers.append(r)
    if extra_cov:
        evaluations += extra_cov.pop("evaluations", 0)
        nontrivial.update(extra_cov.pop("nontrivial", []))
        samples.extend(extra_cov.pop("samples", []))
        for k, v in extra_cov.pop("counters", {}).items():
            counters[k] = counters.get(k, 0) + v
    inconc = list(inconclusive or [])
    # sanitizer reports of the asan build: de-duplicated by (kind, innermost repository frame)
    san_seen = {}
    for r in results:
        for blob in r.get("san_logs", []) + ([r.get("stderr_tail", "")] if r["variant"].startswith("asan") else []):
            for rep in parse_sanitizer(blob):
                key = (rep["kind"], rep["where"])
                san_seen.setdefault(key, rep)
                counters["sanitizer_reports"] = counters.get("sanitizer_reports", 0) + 1
    for (kind, where), rep in sorted(san_seen.items()):
        viols.append(dict(prop=prop, kind="sanitizer:" + kind, fn=where, report=rep["text"][:1800],
                          variant="asan"))
    for r in bad_workers:
        sig = r["rc"] if isinstance(r["rc"], int) and r["rc"] < 0 else None
        if plan.crash_is_violation and sig in (-signal.SIGSEGV, -signal.SIGABRT, -signal.SIGBUS, -signal.SIGFPE):
            viols.append(dict(prop=prop, kind="crash", variant=r["variant"], shard=r["shard"], signal=-sig,
                              current_case=r.get("current_case"), stderr=r.get("stderr_tail", "")[-1500:]))
        else:
            inconc.append("worker %s/%s shard %s %s rc=%s: %s" % (
                r["mod"], r["variant"], r["shard"], r["status"], r["rc"],
                (r.get("error") or r.get("stderr_tail") or "")[-600:]))
    for c in plan.deciding:
        if counters.get(c, 0) == 0:
            inconc.append("deciding monitor %r was never evaluated" % c)
    if plan.only_kinds:
        kept = [w for w in viols if any(str(w.get("kind", "")).startswith(k) for k in plan.only_kinds)]
        counters["violations_of_other_properties_ignored"] = len(viols) - len(kept)
        viols = kept
    # classify
    new, hits = [], {}
    for w in viols:
        w.setdefault("prop", prop)
        k = findings.classify(w, known)
        if k is None:
            new.append(w)
        else:
            hits.setdefault(k["id"], [k, 0])[1] += 1
    wall = time.time() - t0
    cov = dict(evaluations=int(evaluations), distinct_nontrivial=len(nontrivial), rule=plan.rule,
               samples=samples[:6], counters=counters, reached=sorted(reached),
               violation_kinds=viol_counts, known_finding_hits={k: v[1] for k, v in hits.items()},
               workers=len(results), workers_not_ok=len(bad_workers), inconclusive=inconc,
               max_ulp_between_engines=maxulp, notes=notes, exhaustive=bool(plan.exhaustive))
    if extra_cov:
        cov.update(extra_cov)
    ev = dict(property_id=prop, tier=tier, seed=int(seed), level=plan.level, coverage=cov,
              assumptions=list(plan.assumptions), wall_s=round(wall, 2), violations=len(new))
    (OUT / "evidence").mkdir(parents=True, exist_ok=True)
    (OUT / "evidence" / (prop + ".json")).write_text(json.dumps(ev, indent=1, sort_keys=True, default=str))
    print("[%s %s seed=%s] evaluations=%d distinct_nontrivial=%d workers=%d wall=%.1fs" % (
        prop, tier, seed, evaluations, len(nontrivial), len(results), wall))
    for k in sorted(counters):
        print("   %-44s %d" % (k, counters[k]))
    for kid, (k, n) in sorted(hits.items()):
        print("KNOWN-FINDING: property=%s %s [%s, %d witnesses this run]" % (k["property"], k["what"], kid, n))
    lastf = OUT / "replays" / (prop + "-last.json")
    if not new and lastf.exists():
        lastf.unlink()
    if new:
        (OUT / "replays").mkdir(parents=True, exist_ok=True)
        (OUT / "replays" / (prop + "-last.json")).write_text(json.dumps(new, indent=0, default=str))
        seen = set()
        for w in new:
            key = (w.get("kind"), w.get("fn"))
            if key in seen:
                continue
            seen.add(key)
            path = save_replay(prop, w)
            brief = {k: w[k] for k in w if k not in ("stderr",)}
            print("   witness: %s" % json.dumps(brief, default=str)[:900])
            print("VIOLATION property=%s replay=%s" % (prop, path))
        return 1
    if inconc:
        for m in inconc[:10]:
            print("INCONCLUSIVE %s: %s" % (prop, m))
        return 2
    if not samples:
        print("INCONCLUSIVE %s: the workload recorded no sample case" % prop)
        return 2
    if len(nontrivial) < plan.min_nontrivial:
        print("INCONCLUSIVE %s: only %d distinct non-trivial cases" % (prop, len(nontrivial)))
        return 2
    print("HELD property=%s on everything explored" % prop)
    return 0


def run(plan, tier, specs=None):
    t0 = time.time()
    seed = seed_from_env()
    scratch = tempfile.mkdtemp(prefix="dtaiverif-%s-" % plan.prop, dir=os.environ.get("TMPDIR", "/var/tmp"))
    try:
        try:
            specs = specs or plan.workers[tier]
            tmo = plan.timeout[tier]
            if os.environ.get("VF_WORKER_TIMEOUT"):
                tmo = min(tmo, float(os.environ["VF_WORKER_TIMEOUT"]))      # mutation runs: hanging mutants end sooner
            results = run_workers(plan.prop, tier, seed, specs, scratch, tmo)
            extra_cov, extra_viol, inc = None, None, None
            if plan.native:
                extra_cov, extra_viol, inc = plan.native(tier, seed, scratch)
                if extra_cov is None:
                    extra_cov, extra_viol, inc = None, None, None
            if plan.post:
                plan.post(results)
        except (build.BuildError, subprocess.TimeoutExpired) as e:
            print("INCONCLUSIVE %s: build failed: %s" % (plan.prop, str(e)[-1500:]))
            return 2
        return finish(plan, tier, seed, t0, results, extra_cov, extra_viol, inc)
    finally:
        shutil.rmtree(scratch, ignore_errors=True)
