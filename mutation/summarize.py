"""Summarise mutation/results*.jsonl (+ retest*.jsonl, which supersede earlier verdicts of the same mutant) as markdown."""
import collections
import glob
import json
import os

here = os.path.dirname(os.path.abspath(__file__))
recs = {}
for fn in sorted(glob.glob(os.path.join(here, "results*.jsonl"))) + sorted(glob.glob(os.path.join(here, "retest*.jsonl"))):
    for l in open(fn):
        d = json.loads(l)
        recs[(d["file"], d["line"], d["before"], d["after"])] = d
tri = {}
tf = os.path.join(here, "triage.json")
if os.path.exists(tf):
    for t in json.load(open(tf)):
        tri[(t["file"], t["line"], t["after"])] = t
by = collections.defaultdict(collections.Counter)
for d in recs.values():
    by[d["target"]][d["result"]] += 1
import io, sys
_buf = io.StringIO()
_old = sys.stdout
sys.stdout = _buf
print("| target | mutants | killed | survived | inconclusive |")
print("|---|---|---|---|---|")
tot = collections.Counter()
for t in sorted(by):
    c = by[t]
    tot.update(c)
    print("| %s | %d | %d | %d | %d |" % (t, sum(c.values()), c["killed"], c["survived"], c["inconclusive"]))
print("| **all** | %d | %d | %d | %d |" % (sum(tot.values()), tot["killed"], tot["survived"], tot["inconclusive"]))
print()
cls = collections.Counter()
for d in recs.values():
    if d["result"] == "killed":
        continue
    t = tri.get((d["file"], d["line"], d["after"]))
    cls[t["class"] if t else "not triaged"] += 1
print("survivors by triage class:", dict(cls))

sys.stdout = _old
open(os.path.join(here, "SUMMARY.md"), "w").write(_buf.getvalue())
print(_buf.getvalue())
