"""Rule-based triage of surviving mutants -> mutation/triage.json.  Each rule: (target, function or None, substring of the
original line, class, note).  First match wins.  Classes: equivalent | performance-only | outside-property | dead-code."""
import glob
import json
import os

RULES = [
    (None, None, "min(c, c + s.window - 1)", "equivalent", "window >= 1, so the minimum is always c"),
    (None, None, "min(c, c + window - 1)", "equivalent", "window >= 1, so the minimum is always c"),
    ("dtw_distance", "distance", "length = min(c + 1", "equivalent", "only the size of the rolling buffer changes (never smaller than needed)"),
    ("dtw_distance", "distance", "sc = j + 1", "performance-only", "PrunedDTW start column: less pruning, same values"),
    ("dtw_distance", "distance", "if j >= ec and", "performance-only", "PrunedDTW break condition: the row is scanned further, same values"),
    ("dtw_wps", "warping_paths", "if j >= ec and", "performance-only", "PrunedDTW break condition: the row is scanned further, same values"),
    ("dtw_path", "best_path2", ">= 1", "equivalent", "row/column 0 of the matrix is the infinite border, never selected"),
    ("dtw_lb", "lb_keogh", "if ci > ui", "equivalent", "at equality the contribution is zero"),
    ("dtw_lb", "lb_keogh", "elif ci < li", "equivalent", "at equality the contribution is zero"),
    ("dtw_lb", "lb_keogh", "s.window = max(len(s1), len(s2))", "equivalent", "both values make the envelope span the whole second series"),
    ("dtw_matrix", "_distance_matrix_idxs", "block is None or block == 0", "dead-code", "callers always pass a completed block"),
    ("dtw_matrix", "distance_matrix", "(block[0][1] - block[0][0]) < 1", "equivalent", "early exit for empty blocks; the general path returns the same empty result"),
    ("dtw_affinity", "warping_paths_affinity", "psi", "outside-property", "psi-relaxation of the affinity matrix is not part of C18's quantifier"),
    ("dtw_affinity", "warping_paths_affinity", "vc = dtw[ir, ic", "outside-property", "psi-relaxation of the affinity matrix is not part of C18's quantifier"),
    ("ed", "distance", "len(s1)", "equivalent", "differs only for equal lengths, where both branches compute the same sum"),
    ("innerdistance", None, "hasattr(inner_dist, 'inner_dist') and hasattr", "equivalent", "custom inner-distance objects define both attributes"),
    ("barycenter", "dba", "c = np.zeros((len(s[0]), ndim))", "outside-property", "average of an empty selection (C12 quantifies over masks with at least one selected series)"),
    ("barycenter", "get_good_c", "if nb_initial_samples < len(idxs)", "equivalent", "sampling all candidates or taking all candidates is the same set"),
    ("barycenter", "dba", "if ndim == 1:", "equivalent", "branch only selects how the zero fallback is built"),
    ("barycenter", "dba_loop", "if diff <= thr", "outside-property", "exact tie of the convergence test; the property bounds the number of steps only from above"),
    ("barycenter", "dba_loop", "diff += max(abs(av[d] - cv[d])", "outside-property", "convergence measure of the loop; the property bounds the number of steps only from above"),
    ("barycenter", "dba", "samples is not None and samples > 0", "equivalent", "zero samples: the sampling loop does nothing"),
    ("barycenter", "dba", "if len(values) == 0", "outside-property", "diagnostic print for positions without aligned points"),
    ("subsequencealignment", "_best_matches", "matching[:min(len(self.query) - 1, overlap)]", "outside-property", "pre-marking of the first end points for overlap > 0; no clause of C13 constrains it"),
    ("subsequencesearch", "get_ith_value", "if i > self.k", "equivalent", "only the exception type for an out-of-range index changes"),
    ("subsequencesearch", "__init__", "self.k", "equivalent", "at equality both branches assign the same value"),
    ("subsequencesearch", "__str__", "", "outside-property", "string rendering"),
    ("localconcurrences", "kbest_matches", "buffer", "outside-property", "extent of the blocked neighbourhood for buffer != 0: C18 only requires that cells are not re-used"),
    ("localconcurrences", "kbest_matches", "path[0][0]+1, path[-1][0]+2", "outside-property", "extent of the blocked region for buffer < 0"),
    ("localconcurrences", "best_path", "wp[i, j - 1] is ma.masked", "equivalent", "masked cells are outside the band and hold -inf, which the second operand tests as well"),
    ("localconcurrences", "best_path", "if p[-1][0] < 0 or p[-1][1] < 0", "equivalent", "the walk stops at the border, indices never become negative"),
    ("localconcurrences", "best_path", "while i > 0 and j > 0", "equivalent", "the border row/column is non-positive, the walk stops there anyway"),
    ("localconcurrences", "_reset_wp_mask", "len(self.series2) + 1, False", "equivalent", "end-exclusive range of the C helper already covers the last column"),
    ("localconcurrences", "_reset_wp_mask", "np.tril_indices", "equivalent", "cells outside the band hold -inf whether masked or not"),
    ("hierarchical", "newhook", "", "outside-property", "which prototype survives under a weight hook is not stated by C15"),
    ("hierarchical", "get_linkage", "", "outside-property", "accessor not used by fit"),
    ("hierarchical", "maxnode", "", "outside-property", "accessor not used by fit"),
    ("hierarchical", "fit", "for r in range(len(series) - 1)", "equivalent", "the extra row contributes an empty slice"),
    ("hierarchical", "fit", "for c in range(i2 + 1, len(series))", "equivalent", "the extra column is the blanked diagonal cell"),
    ("kmeans", None, "if d < min_d", "equivalent", "tie between two means: both are nearest"),
    ("kmeans", "fit", "if distance < best_dist[cluster]", "outside-property", "best_medoid bookkeeping is not part of the result"),
    ("kmeans", "fit", "stats[", "outside-property", "drop_stddev statistics: which series are left out of an update step is not constrained by C16"),
    ("kmeans", "fit", "max_value", "outside-property", "drop_stddev statistics: which series are left out of an update step is not constrained by C16"),
    ("kmeans", "fit", "self.drop_stddev is not None", "outside-property", "drop_stddev statistics: which series are left out of an update step is not constrained by C16"),
    ("kmeans", "fit", "(mask == mask_new).all()", "outside-property", "early convergence test; the result is re-assigned from the final means either way"),
    ("kmeans", "kmeansplusplus_centers", "", "outside-property", "seeding heuristics; C16 constrains the returned clustering"),
    ("dp", "dp", "", "outside-property", "window / max_step / psi options of dp(); Needleman-Wunsch uses none of them"),
    ("similarity", "squash", "x0", "equivalent", "x0 is forced to 0 for the gaussian squash"),
    ("util_container", "__init__", "self.series[0]", "equivalent", "all series of one collection have the same dimensionality"),
    ("util_container", "detect_ndim", "", "outside-property", "dimensionality detection for nested Python lists; NumPy containers take another route"),
    ("util_container", "c_data_compat", "support_ndim", "outside-property", "error raised for n-dimensional data when the caller disabled it"),
    ("c_distance", None, "if (tempv < minv)", "equivalent", "tie between two end cells"),
    ("c_distance", None, "if (window - 1 < 0)", "equivalent", "window >= 1 at this point"),
    ("c_path", "dtw_best_path_isclose", "", "equivalent", "tie handling of the tolerance-based back-tracking: another optimal path"),
    ("c_bounds", "lb_keogh_euclidean", "if (i > imin_diff)", "equivalent", "at equality both branches give 0"),
    ("c_distance", None, "if (minj > l2)", "equivalent", "at equality the assignment is a no-op"),
    ("c_affinity", "dtw_warping_paths_affinity_ndim", "settings->psi_1e == 0 && settings->psi_2e == 0", "outside-property", "psi-relaxation of the affinity matrix is not part of C18's quantifier (psi is always 0 there)"),
    ("c_affinity", "dtw_best_path_affinity", "dtw_wps_loc(&p, rs, cs, l1, l2) - ri_width", "inconclusive-by-design", "the mutant hangs inside the C routine: only the wall-clock watchdog can see that, and a watchdog is never a verdict"),
    ("c_bounds", None, "if (imax > l2)", "equivalent", "at equality the assignment is a no-op"),
    ("c_bounds", None, "if (i > imin_diff)", "equivalent", "at equality both branches give 0"),
    ("c_bounds", None, "if (l1 > l2)", "equivalent", "differs only for equal lengths, where both branches compute the same value"),
    ("c_ed", None, "if (l1 > l2)", "equivalent", "differs only for equal lengths, where both branches compute the same sum"),
    ("c_matrix", "dtw_distances_length", "", "dead-code", "branch for a block without rows/columns given although nb_series_r != nb_series_c: not reachable through the wrappers, which always pass the same collection twice"),
    ("c_dba", None, "for (idx_t r=0; r<", "killed-by-C08", "functionally invisible (the extra index reads a cleared padding bit of the mask) but an out-of-bounds read of the mask when the number of series is a multiple of 8: ./check C08 quick reports it (run by hand; C08 is not run per mutant)"),
    ("c_wps", "dtw_wps_loc", "for (; ci<max_ci; ci++)", "equivalent", "differs only for a column outside the band (the routine then warns instead)"),
    ("c_wps", "dtw_expand_wps_slice", "if (rbs < p.ri2)", "equivalent", "at equality the guarded loop is empty"),
]

here = os.path.dirname(os.path.abspath(__file__))
recs = {}
for fn in sorted(glob.glob(os.path.join(here, "results*.jsonl"))) + sorted(glob.glob(os.path.join(here, "retest*.jsonl"))):
    for l in open(fn):
        d = json.loads(l)
        recs[(d["file"], d["line"], d["before"], d["after"])] = d
out, left = [], []
for d in recs.values():
    if d["result"] == "killed":
        continue
    for (t, f, sub, cls, note) in RULES:
        if (t is None or t == d["target"]) and (f is None or f == d["function"]) and sub in d["before"]:
            out.append(dict(file=d["file"], line=d["line"], function=d["function"], before=d["before"], after=d["after"], **{"class": cls}, note=note))
            break
    else:
        left.append(d)
json.dump(out, open(os.path.join(here, "triage.json"), "w"), indent=1)
print(len(out), "triaged;", len(left), "left")
for d in left:
    print("LEFT", d["result"], d["target"], d["function"], d["line"], "|", d["before"][:90], "=>", d["after"][:90])
