#!/bin/sh
# offline setup: install the contract library beside the harness and warm the build cache
cd "$(dirname "$0")" || exit 1
export PIP_NO_INDEX=1
[ -d .deps/icontract ] || /venv/bin/pip install -q --no-index --find-links /opt/veriftools/wheels --target .deps icontract || exit 1
PYTHONPATH="$PWD/.deps:$PWD" /venv/bin/python -m vf.build plain asan || exit 1
