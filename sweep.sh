#!/bin/sh
# usage: ./sweep.sh <tier> <seeds...>   -- runs every check for each seed, prints one line per run
T=$1; shift
for s in "$@"; do
  for p in ${PROPS:-C01 C02 C03 C04 C05 C06 C07 C08 C09 C10 C11 C12 C13 C14 C15 C16 C17 C18 C19 C20}; do
    VERIF_SEED=$s ./check $p $T > sweep_${p}_$s.out 2>&1; rc=$?
    echo "seed=$s $p $T rc=$rc $(grep -c '^VIOLATION' sweep_${p}_$s.out) $(grep '^\[' sweep_${p}_$s.out | head -1)"
    [ $rc -ne 0 ] && grep -v '^   ' sweep_${p}_$s.out | cut -c1-600 | tail -8
  done
done
