#!/bin/sh
# Mutation self-test: applies every seeded change under seeded/*/patch.diff to /repo (one at a time), runs
# the check of the property it breaks and expects exit 1 with a VIOLATION line; /repo is restored afterwards.
# usage: ./selftest.sh [tier] [seed-dir ...]     (never run concurrently with other checks)
cd "$(dirname "$0")" || exit 2
T=${1:-quick}; [ $# -gt 0 ] && shift
[ $# -eq 0 ] && set -- seeded/*/
fail=0
git -C /repo status --short | grep -v '^??' && { echo "/repo has uncommitted changes"; exit 2; }
for d in "$@"; do
  d=${d%/}; d=$(cd "$d" && pwd); p=$(python3 -c "import json,sys; print(json.load(open('$d/meta.json'))['property'])")
  if python3 -c "import json,sys; sys.exit(0 if str(json.load(open('$d/meta.json')).get('detected_by','')).lower().startswith('not') else 1)"; then
    echo "SELFTEST $d: documented as not detected by ./check $p (see meta.json)"; continue; fi
  git -C /repo apply "$d/patch.diff" || { echo "SELFTEST $d: patch does not apply"; fail=1; continue; }
  VF_OUT_DIR="${TMPDIR:-/var/tmp}/dtaidistance-verif-selftest" ./check "$p" "$T" > /tmp/selftest.out 2>&1; rc=$?   # evidence/ of the real tree is left alone
  git -C /repo checkout -- .
  n=$(grep -c '^VIOLATION' /tmp/selftest.out)
  if [ $rc -eq 1 ] && [ "$n" -gt 0 ]; then echo "SELFTEST $d: detected by ./check $p $T ($n VIOLATION lines)"; else echo "SELFTEST $d: MISSED by ./check $p $T (rc=$rc)"; fail=1; fi
done
exit $fail
